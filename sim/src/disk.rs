//! Simulated-disk model: the op log, crash-image construction (process crash and power
//! loss), fault descriptions, damage at rest.

use serde::{Deserialize, Serialize};
use std::collections::{BTreeMap, BTreeSet};
use std::path::Path;

#[derive(Debug, Clone)]
pub enum Op {
	Create { path: String, ino: u64 },
	Write { ino: u64, off: u64, data: Vec<u8> },
	Truncate { ino: u64, len: u64 },
	Fsync { ino: u64 },
	Rename { from: String, to: String },
	Unlink { path: String },
	Link { from: String, to: String },
	Mkdir { path: String },
	Rmdir { path: String },
	FsyncDir { path: String },
	Marker { text: String },
}

impl Op {
	pub fn short(&self) -> String {
		match self {
			Op::Create { path, ino } => format!("create {} ino={}", path, ino),
			Op::Write { ino, off, data } => format!("write ino={} off={} len={}", ino, off, data.len()),
			Op::Truncate { ino, len } => format!("truncate ino={} len={}", ino, len),
			Op::Fsync { ino } => format!("fsync ino={}", ino),
			Op::Rename { from, to } => format!("rename {} -> {}", from, to),
			Op::Unlink { path } => format!("unlink {}", path),
			Op::Link { from, to } => format!("link {} -> {}", from, to),
			Op::Mkdir { path } => format!("mkdir {}", path),
			Op::Rmdir { path } => format!("rmdir {}", path),
			Op::FsyncDir { path } => format!("fsyncdir {}", path),
			Op::Marker { text } => format!("# {}", text),
		}
	}
	pub fn is_marker(&self) -> bool {
		matches!(self, Op::Marker { .. })
	}
}

#[derive(Debug, Clone, Copy, PartialEq, Eq, Hash, Serialize, Deserialize, PartialOrd, Ord)]
pub enum FaultKind {
	Write,
	Fsync,
	Create,
	Rename,
	Unlink,
	Truncate,
}

#[derive(Debug, Clone, Copy, PartialEq, Eq, Serialize, Deserialize)]
pub enum FaultAction {
	Eio,
	Enospc,
	Eintr,
	Emfile,
	/// Write only this many bytes (legal short write); the following write on the same
	/// file fails with EIO (torn write with an error).
	Short(u32),
}

#[derive(Debug, Clone, PartialEq, Eq, Serialize, Deserialize)]
pub enum FaultAt {
	/// n-th mutating libc call of the session (1-based).
	Call(u64),
	/// n-th call of `kind` on files of `class` (1-based).
	Class { kind: FaultKind, class: String, nth: u32 },
}

#[derive(Debug, Clone, PartialEq, Eq, Serialize, Deserialize)]
pub struct FaultSpec {
	pub at: FaultAt,
	pub action: FaultAction,
	pub persistent: bool,
	#[serde(default)]
	pub spent: bool,
}

impl FaultSpec {
	pub fn applies_to(&self, kind: FaultKind) -> bool {
		match self.action {
			FaultAction::Short(_) => kind == FaultKind::Write,
			_ => true,
		}
	}
	pub fn action_for(&self, _kind: FaultKind) -> FaultAction {
		self.action
	}
}

#[derive(Debug, Clone, Copy, PartialEq, Eq, Serialize, Deserialize)]
pub enum CrashModel {
	Process,
	PowerLoss,
}

/// Pending (unsynced) modification of an inode.
#[derive(Debug, Clone)]
enum Pend {
	Write { off: u64, data: Vec<u8> },
	Trunc { len: u64 },
}

#[derive(Debug, Clone, Default)]
struct Inode {
	durable: Vec<u8>,
	pending: Vec<Pend>,
}

impl Inode {
	fn apply(buf: &mut Vec<u8>, p: &Pend) {
		match p {
			Pend::Write { off, data } => {
				let end = *off as usize + data.len();
				if buf.len() < end {
					buf.resize(end, 0);
				}
				buf[*off as usize..end].copy_from_slice(data);
			}
			Pend::Trunc { len } => buf.resize(*len as usize, 0),
		}
	}
	fn current(&self) -> Vec<u8> {
		let mut b = self.durable.clone();
		for p in &self.pending {
			Self::apply(&mut b, p);
		}
		b
	}
	fn sync(&mut self) {
		self.durable = self.current();
		self.pending.clear();
	}
}

/// File-system image: directories, names → inode, inode contents.
#[derive(Debug, Clone, Default)]
pub struct Image {
	pub dirs: BTreeSet<String>,
	pub names: BTreeMap<String, u64>,
	inodes: BTreeMap<u64, Inode>,
}

/// Choice source for power-loss tearing: the k-th decision returns `seq[k % len]`
/// (0 when empty).
#[derive(Debug, Clone, Default, Serialize, Deserialize, PartialEq, Eq)]
pub struct Tear {
	pub seq: Vec<u32>,
}

impl Image {
	pub fn apply(&mut self, op: &Op) {
		match op {
			Op::Create { path, ino } => {
				self.names.insert(path.clone(), *ino);
				// tmpfs reuses inode numbers of deleted files: a create always starts empty
				self.inodes.insert(*ino, Inode::default());
			}
			Op::Write { ino, off, data } => {
				self.inodes.entry(*ino).or_default().pending.push(Pend::Write { off: *off, data: data.clone() });
			}
			Op::Truncate { ino, len } => {
				self.inodes.entry(*ino).or_default().pending.push(Pend::Trunc { len: *len });
			}
			Op::Fsync { ino } => {
				self.inodes.entry(*ino).or_default().sync();
			}
			Op::Rename { from, to } => {
				if let Some(i) = self.names.remove(from) {
					self.names.insert(to.clone(), i);
				} else {
					// directory rename
					if self.dirs.remove(from) {
						self.dirs.insert(to.clone());
					}
					let pre = format!("{}/", from);
					let moved: Vec<(String, u64)> =
						self.names.iter().filter(|(k, _)| k.starts_with(&pre)).map(|(k, v)| (k.clone(), *v)).collect();
					for (k, v) in moved {
						self.names.remove(&k);
						self.names.insert(format!("{}/{}", to, &k[pre.len()..]), v);
					}
					let moved: Vec<String> = self.dirs.iter().filter(|k| k.starts_with(&pre)).cloned().collect();
					for k in moved {
						self.dirs.remove(&k);
						self.dirs.insert(format!("{}/{}", to, &k[pre.len()..]));
					}
				}
			}
			Op::Unlink { path } => {
				self.names.remove(path);
			}
			Op::Link { from, to } => {
				if let Some(i) = self.names.get(from).copied() {
					self.names.insert(to.clone(), i);
				}
			}
			Op::Mkdir { path } => {
				self.dirs.insert(path.clone());
			}
			Op::Rmdir { path } => {
				self.dirs.remove(path);
			}
			Op::FsyncDir { .. } | Op::Marker { .. } => {}
		}
	}

	/// Replay `ops[..n]`.
	pub fn replay(ops: &[Op], n: usize) -> Image {
		let mut im = Image::default();
		for op in &ops[..n.min(ops.len())] {
			im.apply(op);
		}
		im
	}

	/// File contents under a crash model. `Process`: everything written is kept.
	/// `PowerLoss`: durable content plus a prefix of the pending modifications chosen by
	/// `tear`; the last surviving write may be cut short.
	pub fn contents(&self, model: CrashModel, tear: &Tear) -> BTreeMap<String, Vec<u8>> {
		let mut by_ino: BTreeMap<u64, Vec<u8>> = BTreeMap::new();
		let mut k = 0usize;
		let mut choice = |max: u32| -> u32 {
			if tear.seq.is_empty() || max == 0 {
				return 0;
			}
			let c = tear.seq[k % tear.seq.len()];
			k += 1;
			c % (max + 1)
		};
		// deterministic order: by path name (inode numbers differ between processes)
		let mut seen: BTreeSet<u64> = BTreeSet::new();
		let order: Vec<u64> = self.names.values().copied().filter(|i| seen.insert(*i)).collect();
		for ino in &order {
			let node = match self.inodes.get(ino) {
				Some(n) => n,
				None => {
					by_ino.insert(*ino, Vec::new());
					continue;
				}
			};
			let content = match model {
				CrashModel::Process => node.current(),
				CrashModel::PowerLoss => {
					let mut b = node.durable.clone();
					let np = node.pending.len() as u32;
					let keep = choice(np); // number of pending mods that survive (0..=np)
					for (i, p) in node.pending.iter().enumerate() {
						if (i as u32) < keep {
							let last = i as u32 + 1 == keep;
							match p {
								Pend::Write { off, data } if last => {
									// the last surviving write may be cut at a byte offset
									let cut = choice(data.len() as u32); // 0 means keep all
									let n = if cut == 0 { data.len() } else { cut as usize };
									Inode::apply(&mut b, &Pend::Write { off: *off, data: data[..n].to_vec() });
								}
								_ => Inode::apply(&mut b, p),
							}
						}
					}
					b
				}
			};
			by_ino.insert(*ino, content);
		}
		self.names.iter().map(|(p, i)| (p.clone(), by_ino.get(i).cloned().unwrap_or_default())).collect()
	}

	/// Write the image into a fresh real directory (`root` must not exist or be empty).
	pub fn materialise(&self, root: &Path, model: CrashModel, tear: &Tear) -> std::io::Result<()> {
		std::fs::create_dir_all(root)?;
		for d in &self.dirs {
			if !d.is_empty() {
				std::fs::create_dir_all(root.join(d))?;
			}
		}
		for (p, data) in self.contents(model, tear) {
			let full = root.join(&p);
			if let Some(parent) = full.parent() {
				std::fs::create_dir_all(parent)?;
			}
			std::fs::write(full, data)?;
		}
		Ok(())
	}
}

/// Compare the model's process-crash view with a real directory (interposer self-check).
pub fn self_check(ops: &[Op], root: &Path) -> Result<(), String> {
	let im = Image::replay(ops, ops.len());
	let want = im.contents(CrashModel::Process, &Tear::default());
	let mut have: BTreeMap<String, Vec<u8>> = BTreeMap::new();
	fn walk(base: &Path, dir: &Path, out: &mut BTreeMap<String, Vec<u8>>) {
		if let Ok(rd) = std::fs::read_dir(dir) {
			for e in rd.flatten() {
				let p = e.path();
				if p.is_dir() {
					walk(base, &p, out);
				} else if let Ok(d) = std::fs::read(&p) {
					out.insert(p.strip_prefix(base).unwrap().to_string_lossy().to_string(), d);
				}
			}
		}
	}
	walk(root, root, &mut have);
	for (p, d) in &want {
		match have.get(p) {
			None => return Err(format!("self-check: model has {} ({} bytes), directory does not", p, d.len())),
			Some(h) if h != d => {
				return Err(format!("self-check: {} differs (model {} bytes, real {} bytes)", p, d.len(), h.len()))
			}
			_ => {}
		}
	}
	for p in have.keys() {
		if !want.contains_key(p) {
			return Err(format!("self-check: directory has {} that the op log does not explain", p));
		}
	}
	Ok(())
}

/// FNV-1a digest of an op log (for replay divergence detection).
pub fn digest(ops: &[Op]) -> u64 {
	let mut h: u64 = 0xcbf29ce484222325;
	let mut eat = |b: &[u8]| {
		for x in b {
			h ^= *x as u64;
			h = h.wrapping_mul(0x100000001b3);
		}
	};
	// inode numbers are allocation-order dependent on tmpfs across processes: map them to
	// first-appearance indices so that digests are comparable between processes.
	let mut ino_ix: BTreeMap<u64, u64> = BTreeMap::new();
	let mut ix = |i: u64, m: &mut BTreeMap<u64, u64>| -> u64 {
		let n = m.len() as u64;
		*m.entry(i).or_insert(n)
	};
	for op in ops {
		match op {
			Op::Create { path, ino } => {
				eat(b"C");
				eat(path.as_bytes());
				eat(&ix(*ino, &mut ino_ix).to_le_bytes());
			}
			Op::Write { ino, off, data } => {
				eat(b"W");
				eat(&ix(*ino, &mut ino_ix).to_le_bytes());
				eat(&off.to_le_bytes());
				eat(data);
			}
			Op::Truncate { ino, len } => {
				eat(b"T");
				eat(&ix(*ino, &mut ino_ix).to_le_bytes());
				eat(&len.to_le_bytes());
			}
			Op::Fsync { ino } => {
				eat(b"F");
				eat(&ix(*ino, &mut ino_ix).to_le_bytes());
			}
			other => eat(other.short().as_bytes()),
		}
	}
	h
}

impl Image {
	/// Image of an existing real directory; everything in it counts as durable.
	pub fn from_dir(root: &Path) -> Image {
		use std::os::unix::fs::MetadataExt;
		let mut im = Image::default();
		fn walk(base: &Path, dir: &Path, im: &mut Image) {
			if let Ok(rd) = std::fs::read_dir(dir) {
				let mut es: Vec<_> = rd.flatten().collect();
				es.sort_by_key(|e| e.file_name());
				for e in es {
					let p = e.path();
					let rel = p.strip_prefix(base).unwrap().to_string_lossy().to_string();
					if p.is_dir() {
						im.dirs.insert(rel);
						walk(base, &p, im);
					} else if let (Ok(md), Ok(d)) = (e.metadata(), std::fs::read(&p)) {
						im.names.insert(rel, md.ino());
						im.inodes.insert(md.ino(), Inode { durable: d, pending: vec![] });
					}
				}
			}
		}
		walk(root, root, &mut im);
		im
	}
}
