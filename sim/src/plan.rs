//! The plan: the complete, serialisable description of one simulated execution.
//! Execution consults the plan only (never a PRNG, never a real clock), so the plan is
//! the replay artefact and can be shrunk.

use crate::disk::{CrashModel, FaultSpec, Tear};
use crate::model::{CurOp, ModeS};
use serde::{Deserialize, Serialize};

#[derive(Debug, Clone, PartialEq, Serialize, Deserialize)]
pub struct StoreOpts {
	pub level_count: u8,
	pub memtable: usize,
	pub block: usize,
	pub restart: usize,
	pub partition: usize,
	/// per level: 0 none, 1 snappy
	pub compression: Vec<u8>,
	pub filter: bool,
	pub cache: u64,
	pub vlog: bool,
	pub vlog_threshold: usize,
	pub vlog_max_file: u64,
	pub vlog_checksum_full: bool,
	pub versioning: bool,
	pub versioned_index: bool,
	pub retention_ns: u64,
	pub l0_max: usize,
	pub max_bytes_level: u64,
	pub multiplier_x10: u32,
	pub memtable_stall: usize,
	pub l0_stall: usize,
	pub flush_on_close: bool,
	pub absolute_consistency: bool,
	pub oracle_gc: Option<u32>,
}

impl Default for StoreOpts {
	fn default() -> Self {
		StoreOpts {
			level_count: 3,
			memtable: 4096,
			block: 256,
			restart: 4,
			partition: 128,
			compression: vec![],
			filter: true,
			cache: 1 << 16,
			vlog: false,
			vlog_threshold: 64,
			vlog_max_file: 1 << 20,
			vlog_checksum_full: false,
			versioning: false,
			versioned_index: false,
			retention_ns: 0,
			l0_max: 2,
			max_bytes_level: 4096,
			multiplier_x10: 20,
			memtable_stall: 1000,
			l0_stall: 1000,
			flush_on_close: false,
			absolute_consistency: false,
			oracle_gc: None,
		}
	}
}

/// Key and value are small descriptors expanded deterministically at execution.
#[derive(Debug, Clone, PartialEq, Eq, Serialize, Deserialize)]
pub struct V {
	/// unique tag
	pub tag: u32,
	/// total length in bytes (0 = empty value)
	pub len: u32,
}

#[derive(Debug, Clone, PartialEq, Serialize, Deserialize)]
pub enum Step {
	Begin { a: u8, mode: ModeS },
	Set { a: u8, k: u16, v: V, ts: Option<u64> },
	Delete { a: u8, k: u16, ts: Option<u64> },
	SoftDelete { a: u8, k: u16, ts: Option<u64> },
	Replace { a: u8, k: u16, v: V },
	Get { a: u8, k: u16 },
	GetAt { a: u8, k: u16, ts: u64 },
	/// complete traversal through a fresh range cursor
	Scan { a: u8, lo: Option<u16>, hi: Option<u16>, rev: bool },
	/// cursor program on a fresh range cursor
	Cursor { a: u8, lo: Option<u16>, hi: Option<u16>, prog: Vec<CurOp> },
	/// open a cursor that stays open across steps
	OpenCursor { a: u8, lo: Option<u16>, hi: Option<u16> },
	CursorOp { a: u8, op: CurOp },
	CloseCursor { a: u8 },
	/// history traversal: (include_tombstones, ts_range, limit), forward or backward
	History { a: u8, lo: u16, hi: u16, tomb: bool, ts_range: Option<(u64, u64)>, limit: Option<u32>, rev: bool },
	Savepoint { a: u8 },
	RollbackSp { a: u8 },
	Rollback { a: u8 },
	DropTxn { a: u8 },
	/// start commit (sync = immediate durability) and run it to its first yield
	Commit { a: u8, sync: bool },
	/// continue an in-flight commit to its next yield
	Poll { a: u8 },
	/// fresh read-only transaction: horizon rules + full comparison with the model
	Probe,
	Rotate,
	FlushOne,
	FlushAll,
	CompactRound,
	CompactAll,
	FlushWal { sync: bool },
	/// let the store's own background flush task take one turn
	ReleaseFlushTask,
	ReleaseLevelTask,
	WakeFlushTask,
	WakeLevelTask,
	/// advance simulated time
	Advance { ns: u64 },
	/// clean close and reopen
	Reopen,
	Checkpoint,
	Restore,
	/// open the checkpoint directory (a copy) as a database of its own and compare
	VerifyCheckpoint,
	/// install / clear faults at this point of the history
	Faults { specs: Vec<FaultSpec> },
	ClearFaults,
	/// start close() and run it to completion
	Close,
	/// first step of a later generation: read everything, settle on the commit prefix
	/// the recovery produced (must lie in params settle_lo..settle_hi), truncate the model
	RecoverSettle,
	/// Tripwire step: rotate the memtable and flush it, but only if the active-memtable lock
	/// is observed free (used inside windows that, in the unchanged code, lie under that lock)
	RotateFlushIfUnlocked,
	/// a second, independent checkpoint (own directory, own model)
	CheckpointB,
	RestoreB,
}

impl Step {
	pub fn actor(&self) -> Option<u8> {
		use Step::*;
		match self {
			Begin { a, .. }
			| Set { a, .. }
			| Delete { a, .. }
			| SoftDelete { a, .. }
			| Replace { a, .. }
			| Get { a, .. }
			| GetAt { a, .. }
			| Scan { a, .. }
			| Cursor { a, .. }
			| OpenCursor { a, .. }
			| CursorOp { a, .. }
			| CloseCursor { a }
			| History { a, .. }
			| Savepoint { a }
			| RollbackSp { a }
			| Rollback { a }
			| DropTxn { a }
			| Commit { a, .. }
			| Poll { a } => Some(*a),
			_ => None,
		}
	}
}

/// Work nested inside the n-th occurrence of a synchronous yield point.
#[derive(Debug, Clone, PartialEq, Serialize, Deserialize)]
pub struct Window {
	pub label: String,
	pub nth: u32,
	pub steps: Vec<Step>,
}

#[derive(Debug, Clone, PartialEq, Serialize, Deserialize)]
pub struct CrashPlan {
	pub model: CrashModel,
	/// explicit op indices; empty = decided by the check (all / stratified)
	pub points: Vec<usize>,
	pub tear: Tear,
}

#[derive(Debug, Clone, PartialEq, Serialize, Deserialize)]
pub struct Plan {
	pub check: String,
	pub case_seed: u64,
	pub opts: StoreOpts,
	/// key universe: index → bytes
	pub keys: Vec<Vec<u8>>,
	pub steps: Vec<Step>,
	#[serde(default)]
	pub windows: Vec<Window>,
	/// park at async yield points (commit phases)?
	#[serde(default)]
	pub async_yields: bool,
	/// gate the store's background tasks at their loop heads?
	#[serde(default)]
	pub gate_tasks: bool,
	#[serde(default)]
	pub faults: Vec<FaultSpec>,
	#[serde(default)]
	pub crash: Option<CrashPlan>,
	/// free-form per-check parameters
	#[serde(default)]
	pub params: std::collections::BTreeMap<String, i64>,
	/// second physical plan for twin checks
	#[serde(default)]
	pub twin: Option<Box<Plan>>,
}

pub fn value_bytes(v: &V) -> Vec<u8> {
	if v.len == 0 {
		return Vec::new();
	}
	let head = format!("v{}.", v.tag).into_bytes();
	let mut out = Vec::with_capacity(v.len as usize);
	out.extend_from_slice(&head);
	let mut x = v.tag as u64 ^ 0x5bd1e995;
	while out.len() < v.len as usize {
		x = x.wrapping_mul(6364136223846793005).wrapping_add(1442695040888963407);
		out.push(b'a' + ((x >> 33) % 26) as u8);
	}
	out.truncate(v.len.max(head.len() as u32) as usize);
	out
}
