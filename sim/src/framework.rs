//! Check framework: case generation, worker processes, shrinking, replay, known
//! findings, evidence, exit codes.

use serde::{Deserialize, Serialize};
use serde_json::{json, Value};
use std::collections::{BTreeMap, BTreeSet};
use std::io::{BufRead, Write as IoWrite};
use std::path::{Path, PathBuf};
use std::process::{Command, Stdio};

use crate::exec::Violation;
use crate::interpose::real_monotonic_ns;
use crate::plan::Plan;
use crate::rng;

#[derive(Debug, Clone, Copy, PartialEq, Eq)]
pub enum Tier {
	Quick,
	Thorough,
}

impl Tier {
	pub fn name(&self) -> &'static str {
		match self {
			Tier::Quick => "quick",
			Tier::Thorough => "thorough",
		}
	}
}

/// What judging one plan produced.
#[derive(Debug, Clone, Default, Serialize, Deserialize)]
pub struct Judged {
	pub violation: Option<Violation>,
	/// counters merged (summed) into the evidence
	pub counters: BTreeMap<String, u64>,
	/// sets merged (unioned); evidence reports their sizes
	pub sets: BTreeMap<String, BTreeSet<String>>,
	/// non-trivial by the check's rule?
	pub nontrivial: bool,
	/// distinctness signature
	pub sig: u64,
	/// evaluations this case stands for (e.g. crash images checked)
	pub evaluations: u64,
	/// context the explanation predicates of known findings may need
	#[serde(default)]
	pub context: BTreeMap<String, Value>,
}

impl Judged {
	pub fn count(&mut self, k: &str, n: u64) {
		*self.counters.entry(k.to_string()).or_insert(0) += n;
	}
	pub fn set(&mut self, k: &str, v: String) {
		self.sets.entry(k.to_string()).or_default().insert(v);
	}
}

pub struct CheckDef {
	pub id: &'static str,
	pub level: &'static str,
	pub rule: &'static str,
	pub assumptions: &'static [&'static str],
	pub components: &'static str,
	pub cases: fn(Tier) -> u64,
	pub gen: fn(u64, u64, Tier) -> Plan,
	pub judge: fn(&Plan, Tier) -> Judged,
	/// maximum re-executions the shrinker may spend
	pub shrink_budget: u32,
}

#[derive(Debug, Clone, Serialize, Deserialize)]
pub struct KnownFinding {
	pub id: String,
	pub property: String,
	pub status: String, // "open" | "fixed"
	pub what_fails: String,
	#[serde(default)]
	pub predicate: String,
	#[serde(default)]
	pub commit: String,
	#[serde(default)]
	pub example_replay: String,
}

pub fn load_known() -> Vec<KnownFinding> {
	let p = Path::new("/verif/known_findings.json");
	match std::fs::read_to_string(p) {
		Ok(s) => serde_json::from_str::<Value>(&s)
			.ok()
			.and_then(|v| v.get("findings").cloned())
			.and_then(|f| serde_json::from_value(f).ok())
			.unwrap_or_default(),
		Err(_) => vec![],
	}
}

/// Does an open known finding of this property fully explain the violation?
pub fn attribute(check_id: &str, plan: &Plan, j: &Judged, known: &[KnownFinding]) -> Option<String> {
	let v = j.violation.as_ref()?;
	for k in known.iter().filter(|k| k.property == check_id && k.status == "open") {
		if crate::findings::explains(&k.predicate, plan, v, j) {
			return Some(k.id.clone());
		}
	}
	None
}

#[derive(Debug, Clone, Serialize, Deserialize)]
pub struct CaseLine {
	pub case: u64,
	pub case_seed: u64,
	pub violation: Option<Violation>,
	pub known: Option<String>,
	pub replay: Option<String>,
	pub counters: BTreeMap<String, u64>,
	pub sets: BTreeMap<String, BTreeSet<String>>,
	pub nontrivial: bool,
	pub sig: u64,
	pub evaluations: u64,
	pub sample: Option<Value>,
	pub ms: u64,
}

/// Fingerprint of everything a judged case produced (for the determinism self-test).
pub fn fingerprint(j: &Judged) -> u64 {
	let mut h: u64 = 0xcbf29ce484222325;
	let mut eat = |b: &[u8]| {
		for x in b {
			h ^= *x as u64;
			h = h.wrapping_mul(0x100000001b3);
		}
	};
	eat(&j.sig.to_le_bytes());
	eat(&j.evaluations.to_le_bytes());
	eat(&[j.nontrivial as u8]);
	for (k, v) in &j.counters {
		eat(k.as_bytes());
		eat(&v.to_le_bytes());
	}
	for (k, v) in &j.sets {
		eat(k.as_bytes());
		for x in v {
			eat(x.as_bytes());
		}
	}
	if let Some(v) = &j.violation {
		eat(v.class.as_bytes());
		// paths and inode numbers in details differ between processes: class + explanation only
		if let Some(e) = &v.explained {
			eat(e.as_bytes());
		}
	}
	h
}

pub fn verif_seed() -> u64 {
	std::env::var("VERIF_SEED").ok().and_then(|s| s.parse().ok()).unwrap_or(1)
}

fn replay_dir() -> PathBuf {
	// VERIF_REPLAY_DIR: for exploratory runs that go on while other runs of the same check
	// (which clear that check's stale replay files) use the default directory
	PathBuf::from(std::env::var("VERIF_REPLAY_DIR").unwrap_or_else(|_| "/verif/replay".to_string()))
}

/// Generic plan shrinker: delta-debugging over steps and windows while the same
/// violation class persists.
pub fn shrink(def: &CheckDef, plan: &Plan, class: &str, tier: Tier) -> Plan {
	let mut best = plan.clone();
	let mut budget = def.shrink_budget;
	let deadline = real_monotonic_ns() + 90_000_000_000;
	let still = |p: &Plan, budget: &mut u32| -> bool {
		if *budget == 0 || real_monotonic_ns() > deadline {
			return false;
		}
		*budget -= 1;
		let j = (def.judge)(p, tier);
		j.violation.map(|v| v.class == class).unwrap_or(false)
	};
	// 0. twins: drop the twin, or continue with the twin alone
	if best.twin.is_some() && best.crash.is_none() {
		let mut p = best.clone();
		p.twin = None;
		if still(&p, &mut budget) {
			best = p;
		} else {
			let mut t = (**best.twin.as_ref().unwrap()).clone();
			t.check = best.check.clone();
			if still(&t, &mut budget) {
				best = t;
			}
		}
	}
	// 1. drop the twin's / windows' / faults entirely if possible
	if !best.windows.is_empty() {
		let mut p = best.clone();
		p.windows.clear();
		if still(&p, &mut budget) {
			best = p;
		}
	}
	// 2. ddmin on steps
	let mut chunk = (best.steps.len() / 2).max(1);
	loop {
		let mut i = 0;
		let mut removed_any = false;
		while i < best.steps.len() && budget > 0 {
			let mut p = best.clone();
			let end = (i + chunk).min(p.steps.len());
			p.steps.drain(i..end);
			if !p.steps.is_empty() && still(&p, &mut budget) {
				best = p;
				removed_any = true;
			} else {
				i += chunk;
			}
		}
		if budget == 0 {
			break;
		}
		if chunk == 1 {
			if !removed_any {
				break;
			}
		} else {
			chunk /= 2;
		}
	}
	// 3. windows: drop individually, then their steps
	let mut wi = 0;
	while wi < best.windows.len() && budget > 0 {
		let mut p = best.clone();
		p.windows.remove(wi);
		if still(&p, &mut budget) {
			best = p;
		} else {
			let mut si = 0;
			while si < best.windows[wi].steps.len() && budget > 0 {
				let mut p = best.clone();
				p.windows[wi].steps.remove(si);
				if still(&p, &mut budget) {
					best = p;
				} else {
					si += 1;
				}
			}
			wi += 1;
		}
	}
	// 4. faults
	let mut fi = 0;
	while fi < best.faults.len() && budget > 0 {
		let mut p = best.clone();
		p.faults.remove(fi);
		if still(&p, &mut budget) {
			best = p;
		} else {
			fi += 1;
		}
	}
	// 5. explicit crash points: keep only the failing one (checks set context for this)
	best
}

fn write_replay(def: &CheckDef, plan: &Plan, v: &Violation, case: u64) -> String {
	let dir = replay_dir();
	let _ = std::fs::create_dir_all(&dir);
	let path = dir.join(format!("{}-{}.json", def.id, plan.case_seed));
	let doc = json!({
		"property": def.id,
		"case": case,
		"case_seed": plan.case_seed,
		"violation": v,
		"plan": plan,
	});
	let _ = std::fs::write(&path, serde_json::to_string_pretty(&doc).unwrap());
	path.to_string_lossy().to_string()
}

pub fn load_replay(path: &str) -> Result<(String, Plan, Option<Violation>), String> {
	let s = std::fs::read_to_string(path).map_err(|e| e.to_string())?;
	let v: Value = serde_json::from_str(&s).map_err(|e| e.to_string())?;
	let plan: Plan = serde_json::from_value(v.get("plan").cloned().ok_or("no plan")?).map_err(|e| e.to_string())?;
	let viol: Option<Violation> = v.get("violation").cloned().and_then(|x| serde_json::from_value(x).ok());
	Ok((plan.check.clone(), plan, viol))
}

/// Worker: run cases `from, from+stride, ...` below `to`; one JSON line per case.
pub fn worker(def: &CheckDef, tier: Tier, seed: u64, from: u64, to: u64, stride: u64, out: &Path) {
	crate::case::install_panic_hook();
	let mut f = std::fs::OpenOptions::new().create(true).append(true).open(out).expect("worker out");
	let known = load_known();
	let mut case = from;
	let mut sampled = 0;
	let mut new_violations = 0;
	while case < to {
		let t0 = real_monotonic_ns();
		let case_seed = rng::derive(seed, def.id, case);
		writeln!(f, "{}", json!({"begin": case})).ok();
		f.flush().ok();
		let plan = (def.gen)(case_seed, case, tier);
		let mut j = (def.judge)(&plan, tier);
		let mut line = CaseLine {
			case,
			case_seed,
			violation: None,
			known: None,
			replay: None,
			counters: std::mem::take(&mut j.counters),
			sets: std::mem::take(&mut j.sets),
			nontrivial: j.nontrivial,
			sig: j.sig,
			evaluations: j.evaluations.max(1),
			sample: None,
			ms: 0,
		};
		if let Some(v) = j.violation.clone() {
			if v.class == "harness" {
				line.violation = Some(v);
			} else if let Some(k) = attribute(def.id, &plan, &j, &known) {
				// fully explained by an open known finding: no shrinking, keep one example
				line.known = Some(k);
				line.replay = Some(write_replay(def, &plan, &v, case));
				line.violation = Some(v);
			} else {
				// shrink, then decide known / new
				let small = shrink(def, &plan, &v.class, tier);
				let j2 = (def.judge)(&small, tier);
				let (fin_plan, fin_j) = match &j2.violation {
					Some(v2) if v2.class == v.class => (small, j2),
					_ => (plan.clone(), j),
				};
				let fv = fin_j.violation.clone().unwrap();
				line.known = attribute(def.id, &fin_plan, &fin_j, &known);
				line.replay = Some(write_replay(def, &fin_plan, &fv, case));
				line.violation = Some(fv);
			}
		} else if sampled < 2 && line.nontrivial {
			sampled += 1;
			line.sample = Some(sample_of(&plan));
		}
		line.ms = (real_monotonic_ns() - t0) / 1_000_000;
		let new_violation = line.violation.as_ref().map(|v| v.class != "harness").unwrap_or(false) && line.known.is_none();
		writeln!(f, "{}", serde_json::to_string(&line).unwrap()).ok();
		f.flush().ok();
		case += stride;
		if new_violation {
			// the check fails anyway; do not spend minutes shrinking dozens of violations of a
			// broken tree (the parent reports the first five). Never reached on a tree that holds.
			new_violations += 1;
			if new_violations >= 2 {
				break;
			}
		}
	}
	crate::case::cleanup_scratch();
}

pub fn sample_of(plan: &Plan) -> Value {
	let steps: Vec<String> = plan.steps.iter().take(40).map(|s| format!("{:?}", s)).collect();
	json!({
		"case_seed": plan.case_seed,
		"opts": {"level_count": plan.opts.level_count, "memtable": plan.opts.memtable, "block": plan.opts.block, "vlog": plan.opts.vlog, "versioning": plan.opts.versioning, "l0_max": plan.opts.l0_max},
		"n_steps": plan.steps.len(),
		"n_windows": plan.windows.len(),
		"steps_head": steps,
		"params": plan.params,
	})
}

/// Parent: fan out, collect, confirm violations by replay in a fresh process, write
/// evidence, print KNOWN-FINDING / VIOLATION lines. Returns the exit code.
pub fn run_check(def: &CheckDef, tier: Tier) -> i32 {
	let t0 = real_monotonic_ns();
	let seed = verif_seed();
	let total = (def.cases)(tier);
	let workers: u64 = std::env::var("VERIF_WORKERS").ok().and_then(|s| s.parse().ok()).unwrap_or(16).min(total.max(1));
	let exe = std::env::current_exe().expect("exe");
	let outdir = PathBuf::from(format!("/dev/shm/skvsim-out/{}-{}", def.id, unsafe { libc::syscall(libc::SYS_getpid) }));
	let _ = std::fs::remove_dir_all(&outdir);
	std::fs::create_dir_all(&outdir).expect("outdir");
	// replay files of earlier runs of this check are stale
	if let Ok(rd) = std::fs::read_dir(replay_dir()) {
		let prefix = format!("{}-", def.id);
		for e in rd.flatten() {
			if e.file_name().to_string_lossy().starts_with(&prefix) {
				let _ = std::fs::remove_file(e.path());
			}
		}
	}
	let wall_cap_s: u64 = std::env::var("VERIF_WALL_CAP").ok().and_then(|s| s.parse().ok()).unwrap_or(match tier {
		Tier::Quick => 900,
		Tier::Thorough => 7200,
	});

	// each worker slot: process + next start index (restart after a death)
	struct Slot {
		w: u64,
		next: u64,
		child: Option<std::process::Child>,
		out: PathBuf,
		restarts: u32,
	}
	let mut slots: Vec<Slot> = (0..workers)
		.map(|w| Slot { w, next: w, child: None, out: outdir.join(format!("w{}.jsonl", w)), restarts: 0 })
		.collect();
	let spawn = |s: &mut Slot| {
		let c = Command::new(&exe)
			.arg("worker")
			.arg(def.id)
			.arg(tier.name())
			.arg(seed.to_string())
			.arg(s.next.to_string())
			.arg(total.to_string())
			.arg(workers.to_string())
			.arg(&s.out)
			.stdin(Stdio::null())
			.stdout(Stdio::null())
			.stderr(Stdio::null())
			.spawn()
			.expect("spawn worker");
		s.child = Some(c);
	};
	for s in slots.iter_mut() {
		if s.next < total {
			spawn(s);
		}
	}
	let mut harness_errors: Vec<String> = Vec::new();
	let mut dead_cases: Vec<(u64, String)> = Vec::new();
	let mut last_progress: BTreeMap<u64, (u64, u64)> = BTreeMap::new(); // slot -> (file len, time)
	// a case takes milliseconds to a few seconds (thorough crash-engine cases: up to tens of
	// seconds, minutes on a loaded machine: a first thorough run of C07 next to eight
	// compiling agents lost cases to a 180 s bound); VERIF_WATCHDOG_S overrides
	let watchdog_ns: u64 = std::env::var("VERIF_WATCHDOG_S").ok().and_then(|s| s.parse::<u64>().ok()).unwrap_or(match tier {
		Tier::Quick => 75,
		Tier::Thorough => 900,
	}) * 1_000_000_000;
	loop {
		let mut running = 0;
		for s in slots.iter_mut() {
			if let Some(c) = s.child.as_mut() {
				match c.try_wait() {
					Ok(Some(status)) => {
						s.child = None;
						// find the last begun / finished case
						let (begun, done) = scan_progress(&s.out);
						if !status.success() || begun != done {
							if let Some(b) = begun {
								if Some(b) != done {
									dead_cases.push((b, format!("worker died ({})", status)));
									s.next = b + workers;
									s.restarts += 1;
									// a few dead cases are enough to report; do not grind through a
									// tree in which many cases die or hang
									if s.next < total && s.restarts < 50 && dead_cases.len() < 3 {
										spawn(s);
										running += 1;
									}
								}
							} else if !status.success() {
								harness_errors.push(format!("worker {} failed before its first case: {}", s.w, status));
							}
						}
					}
					Ok(None) => {
						running += 1;
						// per-case watchdog: no growth of the out file for 120 s
						let len = std::fs::metadata(&s.out).map(|m| m.len()).unwrap_or(0);
						let now = real_monotonic_ns();
						let e = last_progress.entry(s.w).or_insert((len, now));
						if e.0 != len {
							*e = (len, now);
						} else if now - e.1 > watchdog_ns {
							let _ = c.kill();
							let _ = c.wait();
							s.child = None;
							let (begun, _) = scan_progress(&s.out);
							if let Some(b) = begun {
								dead_cases.push((b, format!("case exceeded the {} s wall-clock watchdog (hang)", watchdog_ns / 1_000_000_000)));
								s.next = b + workers;
								s.restarts += 1;
								if s.next < total && s.restarts < 50 && dead_cases.len() < 3 {
									spawn(s);
								}
							}
							last_progress.remove(&s.w);
						}
					}
					Err(e) => harness_errors.push(e.to_string()),
				}
			}
		}
		if running == 0 {
			break;
		}
		if (real_monotonic_ns() - t0) / 1_000_000_000 > wall_cap_s {
			for s in slots.iter_mut() {
				if let Some(c) = s.child.as_mut() {
					let _ = c.kill();
					let _ = c.wait();
				}
			}
			harness_errors.push(format!("wall-clock cap of {} s reached; partial results", wall_cap_s));
			break;
		}
		unsafe { libc::usleep(50_000) };
	}

	// collect
	let mut lines: Vec<CaseLine> = Vec::new();
	for s in &slots {
		if let Ok(f) = std::fs::File::open(&s.out) {
			for l in std::io::BufReader::new(f).lines().map_while(Result::ok) {
				if let Ok(cl) = serde_json::from_str::<CaseLine>(&l) {
					lines.push(cl);
				}
			}
		}
	}
	lines.sort_by_key(|l| l.case);
	let known = load_known();

	let mut counters: BTreeMap<String, u64> = BTreeMap::new();
	let mut sets: BTreeMap<String, BTreeSet<String>> = BTreeMap::new();
	let mut sigs: BTreeSet<u64> = BTreeSet::new();
	let mut evaluations = 0u64;
	let mut samples: Vec<Value> = Vec::new();
	let mut violations: Vec<(CaseLine, bool)> = Vec::new();
	let mut known_hits: BTreeMap<String, (u64, String)> = BTreeMap::new();
	for l in &lines {
		for (k, v) in &l.counters {
			*counters.entry(k.clone()).or_insert(0) += v;
		}
		for (k, v) in &l.sets {
			sets.entry(k.clone()).or_default().extend(v.iter().cloned());
		}
		evaluations += l.evaluations;
		if l.nontrivial {
			sigs.insert(l.sig);
		}
		if let Some(s) = &l.sample {
			if samples.len() < 3 {
				samples.push(s.clone());
			}
		}
		if let Some(v) = &l.violation {
			if v.class == "harness" {
				harness_errors.push(format!("case {}: {}", l.case, v.detail));
			} else if let Some(k) = &l.known {
				let e = known_hits.entry(k.clone()).or_insert((0, l.replay.clone().unwrap_or_default()));
				e.0 += 1;
				// keep one example replay per known finding
				if e.0 > 1 {
					if let Some(rp) = &l.replay {
						if *rp != e.1 {
							let _ = std::fs::remove_file(rp);
						}
					}
				}
			} else {
				violations.push((l.clone(), false));
			}
		}
	}
	// cases whose worker died: replay the generated plan in a fresh process to confirm
	for (case, why) in &dead_cases {
		let case_seed = rng::derive(seed, def.id, *case);
		let plan = (def.gen)(case_seed, *case, tier);
		let v = Violation::new("abort_or_hang", format!("case {}: {}", case, why));
		let path = write_replay(def, &plan, &v, *case);
		violations.push((
			CaseLine {
				case: *case,
				case_seed,
				violation: Some(v),
				known: None,
				replay: Some(path),
				counters: Default::default(),
				sets: Default::default(),
				nontrivial: false,
				sig: 0,
				evaluations: 1,
				sample: None,
				ms: 0,
			},
			true,
		));
	}

	// confirm each new violation by replaying its file in a fresh process (first 5)
	let mut confirmed: Vec<(CaseLine, String)> = Vec::new();
	for (l, died) in violations.iter().take(if dead_cases.is_empty() { 5 } else { 2 }) {
		let path = l.replay.clone().unwrap_or_default();
		// bounded: a replay that hangs is killed (240 s; watchdog + 25 s when cases already hung)
		let st = (|| -> std::io::Result<(Option<i32>, String)> {
			let outp = outdir.join("replay.out");
			let f = std::fs::File::create(&outp)?;
			let mut c = Command::new(&exe).arg("replay").arg(&path).stdin(Stdio::null()).stdout(f).stderr(Stdio::null()).spawn()?;
			let t1 = real_monotonic_ns();
			loop {
				if let Some(s) = c.try_wait()? {
					return Ok((s.code(), std::fs::read_to_string(&outp).unwrap_or_default()));
				}
				if real_monotonic_ns() - t1 > if dead_cases.is_empty() { 240_000_000_000 } else { watchdog_ns + 25_000_000_000 } {
					let _ = c.kill();
					let _ = c.wait();
					return Ok((None, "replay exceeded its time bound (hang)".into()));
				}
				unsafe { libc::usleep(20_000) };
			}
		})();
		match st {
			Ok((code, txt)) => {
				if code == Some(1) || (*died && code != Some(0)) {
					confirmed.push((l.clone(), path));
				} else if code == Some(3) {
					// reproduced, but attributed to a known finding on replay
					let k = txt.lines().find_map(|x| x.strip_prefix("KNOWN ")).unwrap_or("?").to_string();
					let e = known_hits.entry(k).or_insert((0, path.clone()));
					e.0 += 1;
				} else {
					harness_errors.push(format!("case {}: violation '{}' did not reproduce when replayed from {} (exit {:?}) — treated as harness nondeterminism", l.case, l.violation.as_ref().map(|v| v.class.clone()).unwrap_or_default(), path, code));
				}
			}
			Err(e) => harness_errors.push(format!("replay spawn failed: {}", e)),
		}
	}

	let wall_s = (real_monotonic_ns() - t0) as f64 / 1e9;
	// evidence
	let set_sizes: BTreeMap<String, usize> = sets.iter().map(|(k, v)| (k.clone(), v.len())).collect();
	let zero_probes: Vec<String> = counters.iter().filter(|(k, v)| k.starts_with("probe.") && **v == 0).map(|(k, _)| k.clone()).collect();
	if samples.is_empty() {
		let case_seed = rng::derive(seed, def.id, 0);
		samples.push(sample_of(&(def.gen)(case_seed, 0, tier)));
	}
	let sim_ns = counters.get("sim_time_ns").copied().unwrap_or(0);
	let ev = json!({
		"property_id": def.id,
		"tier": tier.name(),
		"seed": seed,
		"level": def.level,
		"coverage": {
			"evaluations": evaluations.max(1),
			"distinct_nontrivial": sigs.len(),
			"rule": def.rule,
			"samples": samples,
			"cases_run": lines.len(),
			"cases_planned": total,
			"runs_per_hour": if wall_s > 0.0 { (lines.len() as f64 / wall_s * 3600.0) as u64 } else { 0 },
			"evaluations_per_hour": if wall_s > 0.0 { (evaluations as f64 / wall_s * 3600.0) as u64 } else { 0 },
			"simulated_time_s": sim_ns as f64 / 1e9,
			"counters": counters,
			"distinct": set_sizes,
			"probes_stuck_at_zero": zero_probes,
			"components": def.components,
			"known_findings_hit": known_hits.iter().map(|(k, v)| json!({"id": k, "cases": v.0})).collect::<Vec<_>>(),
			"harness_errors": harness_errors,
			"workers": workers,
		},
		"assumptions": def.assumptions,
		"wall_s": wall_s,
		"violations": confirmed.len(),
	});
	// VERIF_EVIDENCE_DIR: used by tools/check_seeds.sh so that runs against deliberately broken
	// trees do not overwrite the evidence of the real tree
	let evdir = std::env::var("VERIF_EVIDENCE_DIR").unwrap_or_else(|_| "/verif/evidence".to_string());
	let _ = std::fs::create_dir_all(&evdir);
	let evp = format!("{}/{}.json", evdir, def.id);
	if let Err(e) = std::fs::write(&evp, serde_json::to_string_pretty(&ev).unwrap()) {
		eprintln!("cannot write evidence: {}", e);
		return 2;
	}
	let _ = std::fs::remove_dir_all(&outdir);

	println!(
		"{} {}: {} cases, {} evaluations, {} distinct non-trivial, {:.1}s, seed {}",
		def.id,
		tier.name(),
		lines.len(),
		evaluations,
		sigs.len(),
		wall_s,
		seed
	);
	for (k, (n, rp)) in &known_hits {
		let kf = known.iter().find(|x| &x.id == k);
		println!("KNOWN-FINDING: property={} {} [{}; {} case(s); e.g. {}]", def.id, kf.map(|x| x.what_fails.clone()).unwrap_or_default(), k, n, rp);
	}
	for e in &harness_errors {
		eprintln!("HARNESS: {}", e);
	}
	if !confirmed.is_empty() {
		for (l, path) in &confirmed {
			let v = l.violation.as_ref().unwrap();
			println!("  case {} seed {}: [{}] {}", l.case, l.case_seed, v.class, v.detail);
			println!("VIOLATION property={} replay={}", def.id, path);
		}
		return 1;
	}
	if !harness_errors.is_empty() {
		return 2;
	}
	if (lines.len() as u64) < total {
		eprintln!("HARNESS: only {} of {} cases produced results", lines.len(), total);
		return 2;
	}
	0
}

fn scan_progress(out: &Path) -> (Option<u64>, Option<u64>) {
	let mut begun = None;
	let mut done = None;
	if let Ok(f) = std::fs::File::open(out) {
		for l in std::io::BufReader::new(f).lines().map_while(Result::ok) {
			if let Ok(v) = serde_json::from_str::<Value>(&l) {
				if let Some(b) = v.get("begin").and_then(|b| b.as_u64()) {
					begun = Some(b);
				} else if let Some(c) = v.get("case").and_then(|b| b.as_u64()) {
					done = Some(c);
				}
			}
		}
	}
	(begun, done)
}

/// `skvsim replay <file>`: exit 1 = violation reproduced, 3 = reproduced but known, 0 = held.
pub fn replay(def: &CheckDef, plan: &Plan, expected: Option<Violation>) -> i32 {
	crate::case::install_panic_hook();
	let j = (def.judge)(plan, Tier::Quick);
	let code = match &j.violation {
		Some(v) => {
			let known = load_known();
			println!("violation class={} detail={}", v.class, v.detail);
			if let Some(e) = &expected {
				if e.class != v.class && e.class != "abort_or_hang" {
					println!("note: recorded class was {}", e.class);
				}
			}
			if let Some(k) = attribute(def.id, plan, &j, &known) {
				println!("KNOWN {}", k);
				3
			} else {
				println!("VIOLATION property={} replay=(this file)", def.id);
				1
			}
		}
		None => {
			println!("held");
			0
		}
	};
	crate::case::cleanup_scratch();
	code
}
