//! SpecKV — the executable reference model of the store's contract.
//!
//! No I/O, no concurrency. A multi-version map ordered by commit sequence, a
//! transaction overlay (write-set with savepoints), cursors over the live key list, and
//! versioned queries (`get_at`, `history`) with the barrier rules as the properties word
//! them.

use serde::{Deserialize, Serialize};
use std::collections::BTreeMap;

pub type Key = Vec<u8>;
pub type Val = Vec<u8>;

#[derive(Debug, Clone, Copy, PartialEq, Eq, Serialize, Deserialize)]
pub enum Kind {
	Set,
	Delete,
	SoftDelete,
	Replace,
}

#[derive(Debug, Clone, PartialEq, Eq, Serialize, Deserialize)]
pub struct Write {
	pub key: Key,
	pub kind: Kind,
	pub value: Option<Val>,
	/// explicit timestamp (None = commit time)
	pub ts: Option<u64>,
}

#[derive(Debug, Clone, Copy, PartialEq, Eq)]
pub enum Status {
	InFlight,
	Acked,
	Failed,
}

#[derive(Debug, Clone)]
pub struct Commit {
	pub txn: u64,
	pub first_seq: u64,
	pub last_seq: u64,
	pub writes: Vec<Write>,
	pub commit_ts: u64,
	pub status: Status,
	/// op-log position when the sequence numbers were allocated (WAL append is inside
	/// the same critical section, after this point)
	pub op_at_seq: usize,
	/// op-log position when commit() returned Ok
	pub op_at_ack: Option<usize>,
	pub durable_sync: bool,
	/// WAL segment the batch was appended to
	pub logged_wal: Option<u64>,
	/// WAL number of the memtable that received the (final) apply
	pub applied_wal: Option<u64>,
	/// horizon of the transaction when it began
	pub start_seq: u64,
	/// (failed commits, finding F5) false once the unchanged code has surely retired the log
	/// segment holding the failed commit's record at the crash point under judgement: from
	/// then on the record must not come back. Set per crash image by the judge.
	pub ghost_ok: bool,
}

impl Commit {
	/// The batch's log record is in one segment, its data in the memtable of another.
	pub fn straddled(&self) -> bool {
		matches!((self.logged_wal, self.applied_wal), (Some(a), Some(b)) if a != b)
	}
}

#[derive(Debug, Clone, Default)]
pub struct Model {
	pub commits: Vec<Commit>, // sorted by first_seq
	pub versioning: bool,
}

/// One retained version of a key as `history` would list it.
#[derive(Debug, Clone, PartialEq, Eq)]
pub struct HistEntry {
	pub key: Key,
	pub ts: u64,
	pub tombstone: bool,
	pub value: Option<Val>,
}

impl Model {
	pub fn add_commit(&mut self, c: Commit) {
		let pos = self.commits.partition_point(|x| x.first_seq < c.first_seq);
		self.commits.insert(pos, c);
	}

	pub fn by_txn_mut(&mut self, txn: u64) -> Option<&mut Commit> {
		self.commits.iter_mut().rev().find(|c| c.txn == txn)
	}

	pub fn max_acked_seq(&self) -> u64 {
		self.commits.iter().filter(|c| c.status == Status::Acked).map(|c| c.last_seq).max().unwrap_or(0)
	}

	/// A horizon strictly inside some commit's sequence range?
	pub fn splits_commit(&self, h: u64) -> Option<&Commit> {
		self.commits.iter().find(|c| c.status != Status::Failed && c.first_seq <= h && h < c.last_seq)
	}

	fn visible<'a>(&'a self, h: u64) -> impl Iterator<Item = &'a Commit> + 'a {
		self.commits.iter().filter(move |c| c.status != Status::Failed && c.last_seq <= h)
	}

	/// Live map at horizon `h` (latest write per key by commit order; tombstones hide).
	pub fn live(&self, h: u64) -> BTreeMap<Key, Val> {
		let mut m: BTreeMap<Key, Option<Val>> = BTreeMap::new();
		for c in self.visible(h) {
			for w in &c.writes {
				match w.kind {
					Kind::Set | Kind::Replace => {
						m.insert(w.key.clone(), w.value.clone());
					}
					Kind::Delete | Kind::SoftDelete => {
						m.insert(w.key.clone(), None);
					}
				}
			}
		}
		m.into_iter().filter_map(|(k, v)| v.map(|v| (k, v))).collect()
	}

	pub fn get(&self, key: &[u8], h: u64) -> Option<Val> {
		let mut cur: Option<Option<Val>> = None;
		for c in self.visible(h) {
			for w in &c.writes {
				if w.key == key {
					cur = Some(match w.kind {
						Kind::Set | Kind::Replace => w.value.clone(),
						_ => None,
					});
				}
			}
		}
		cur.flatten()
	}

	/// Possible final values of `key` at boundary `p` if the writes of commits selected by
	/// `lossy` may each be independently missing (None = absent).
	pub fn possible(&self, key: &[u8], p: u64, lossy: &dyn Fn(&Commit) -> bool) -> Vec<Option<Val>> {
		self.possible2(key, p, lossy, &|_| false)
	}

	/// As `possible`, and additionally the writes of *failed* commits selected by `ghost`
	/// may each be independently present.
	pub fn possible2(&self, key: &[u8], p: u64, lossy: &dyn Fn(&Commit) -> bool, ghost: &dyn Fn(&Commit) -> bool) -> Vec<Option<Val>> {
		let mut set: Vec<Option<Val>> = vec![None];
		for c in self.commits.iter().filter(|c| c.last_seq <= p) {
			if c.status == Status::Failed {
				if ghost(c) {
					for w in &c.writes {
						if w.key == key {
							let v = match w.kind {
								Kind::Set | Kind::Replace => w.value.clone(),
								_ => None,
							};
							if !set.contains(&v) {
								set.push(v);
							}
						}
					}
				}
				continue;
			}
			for w in &c.writes {
				if w.key != key {
					continue;
				}
				let v = match w.kind {
					Kind::Set | Kind::Replace => w.value.clone(),
					_ => None,
				};
				if lossy(c) {
					if !set.contains(&v) {
						set.push(v);
					}
				} else {
					set = vec![v];
				}
			}
		}
		set
	}

	#[allow(dead_code)]
	fn possible_old(&self, key: &[u8], p: u64, lossy: &dyn Fn(&Commit) -> bool) -> Vec<Option<Val>> {
		let mut set: Vec<Option<Val>> = vec![None];
		for c in self.visible(p) {
			for w in &c.writes {
				if w.key != key {
					continue;
				}
				let v = match w.kind {
					Kind::Set | Kind::Replace => w.value.clone(),
					_ => None,
				};
				if lossy(c) {
					if !set.contains(&v) {
						set.push(v);
					}
				} else {
					set = vec![v];
				}
			}
		}
		set
	}

	/// Commit boundaries (last_seq values) of non-failed commits, ascending, plus 0.
	pub fn boundaries(&self) -> Vec<u64> {
		let mut v: Vec<u64> = vec![0];
		v.extend(self.commits.iter().filter(|c| c.status != Status::Failed).map(|c| c.last_seq));
		v.sort();
		v.dedup();
		v
	}

	/// Drop everything after boundary `p` (used after a recovery settled on prefix p).
	pub fn truncate_to(&mut self, p: u64) {
		self.commits.retain(|c| c.status != Status::Failed && c.last_seq <= p);
		for c in self.commits.iter_mut() {
			c.status = Status::Acked;
			c.op_at_seq = 0;
			c.op_at_ack = Some(0);
			c.durable_sync = true;
		}
	}

	/// All keys ever written.
	pub fn all_keys(&self) -> Vec<Key> {
		let mut s: std::collections::BTreeSet<Key> = Default::default();
		for c in &self.commits {
			for w in &c.writes {
				s.insert(w.key.clone());
			}
		}
		s.into_iter().collect()
	}

	// ---------- versioned queries ----------

	/// Retained versions of `key` visible at horizon `h`, newest first by (ts desc, then
	/// commit order desc). A hard delete or a replace erases everything older (in commit
	/// order). The newest hard delete itself is never listed; a replace is listed as a
	/// value.
	pub fn versions(&self, key: &[u8], h: u64) -> Vec<(u64 /*ts*/, u64 /*order*/, Kind, Option<Val>)> {
		let mut out: Vec<(u64, u64, Kind, Option<Val>)> = Vec::new();
		let mut order = 0u64;
		for c in self.visible(h) {
			for w in &c.writes {
				order += 1;
				if w.key != key {
					continue;
				}
				let ts = w.ts.unwrap_or(c.commit_ts);
				match w.kind {
					Kind::Delete => out.clear(),
					Kind::Replace => {
						out.clear();
						out.push((ts, order, Kind::Replace, w.value.clone()));
					}
					Kind::Set => out.push((ts, order, Kind::Set, w.value.clone())),
					Kind::SoftDelete => out.push((ts, order, Kind::SoftDelete, None)),
				}
			}
		}
		out.sort_by(|a, b| b.0.cmp(&a.0).then(b.1.cmp(&a.1)));
		out
	}

	/// `get_at`: value of the version with the greatest timestamp ≤ t (None if that is a
	/// tombstone or nothing exists). Returns the *set* of acceptable answers when several
	/// versions tie on that timestamp.
	pub fn get_at(&self, key: &[u8], t: u64, h: u64) -> Vec<Option<Val>> {
		let vs = self.versions(key, h);
		let best = vs.iter().filter(|v| v.0 <= t).map(|v| v.0).max();
		match best {
			None => vec![None],
			Some(bt) => {
				let mut acc: Vec<Option<Val>> = Vec::new();
				for v in vs.iter().filter(|v| v.0 == bt) {
					let a = if v.2 == Kind::SoftDelete { None } else { v.3.clone() };
					if !acc.contains(&a) {
						acc.push(a);
					}
				}
				acc
			}
		}
	}
}

// ---------- transaction overlay ----------

#[derive(Debug, Clone, Copy, PartialEq, Eq, Serialize, Deserialize)]
pub enum ModeS {
	ReadWrite,
	ReadOnly,
	WriteOnly,
}

#[derive(Debug, Clone)]
pub struct TxnModel {
	pub mode: ModeS,
	pub horizon: u64,
	pub closed: bool,
	pub writes: Vec<Write>,
	pub savepoints: Vec<Vec<Write>>,
}

#[derive(Debug, Clone, Copy, PartialEq, Eq)]
pub enum ExpectErr {
	ReadOnly,
	WriteOnly,
	Closed,
	EmptyKey,
	NoSavepoint,
}

impl TxnModel {
	pub fn new(mode: ModeS, horizon: u64) -> Self {
		TxnModel { mode, horizon, closed: false, writes: Vec::new(), savepoints: Vec::new() }
	}

	/// Expected error class of a write, if any (the real code checks mode, then closed,
	/// then empty key).
	pub fn write_err(&self, key: &[u8]) -> Option<ExpectErr> {
		if self.mode == ModeS::ReadOnly {
			return Some(ExpectErr::ReadOnly);
		}
		if self.closed {
			return Some(ExpectErr::Closed);
		}
		if key.is_empty() {
			return Some(ExpectErr::EmptyKey);
		}
		None
	}

	pub fn read_err(&self, key: &[u8]) -> Option<ExpectErr> {
		if self.closed {
			return Some(ExpectErr::Closed);
		}
		if key.is_empty() {
			return Some(ExpectErr::EmptyKey);
		}
		if self.mode == ModeS::WriteOnly {
			return Some(ExpectErr::WriteOnly);
		}
		None
	}

	pub fn write(&mut self, w: Write) {
		self.writes.push(w);
	}

	pub fn set_savepoint(&mut self) {
		self.savepoints.push(self.writes.clone());
	}

	pub fn rollback_to_savepoint(&mut self) -> bool {
		match self.savepoints.pop() {
			Some(w) => {
				self.writes = w;
				true
			}
			None => false,
		}
	}

	/// Latest pending write to `key`.
	pub fn pending(&self, key: &[u8]) -> Option<&Write> {
		self.writes.iter().rev().find(|w| w.key == key)
	}

	/// Expected `get`.
	pub fn get(&self, m: &Model, key: &[u8]) -> Option<Val> {
		match self.pending(key) {
			Some(w) => match w.kind {
				Kind::Set | Kind::Replace => w.value.clone(),
				_ => None,
			},
			None => m.get(key, self.horizon),
		}
	}

	/// Expected live key/value list of the transaction's view restricted to [lo, hi).
	/// `None` bound = unbounded.
	pub fn view(&self, m: &Model, lo: Option<&[u8]>, hi: Option<&[u8]>) -> Vec<(Key, Val)> {
		let mut live: BTreeMap<Key, Option<Val>> = m.live(self.horizon).into_iter().map(|(k, v)| (k, Some(v))).collect();
		for w in &self.writes {
			match w.kind {
				Kind::Set | Kind::Replace => {
					live.insert(w.key.clone(), w.value.clone());
				}
				_ => {
					live.insert(w.key.clone(), None);
				}
			}
		}
		live.into_iter()
			.filter(|(k, _)| lo.map(|l| k.as_slice() >= l).unwrap_or(true) && hi.map(|h| k.as_slice() < h).unwrap_or(true))
			.filter_map(|(k, v)| v.map(|v| (k, v)))
			.collect()
	}
}

// ---------- cursor model ----------

#[derive(Debug, Clone, Copy, PartialEq, Eq, Serialize, Deserialize)]
pub enum CurOp {
	SeekFirst,
	SeekLast,
	Next,
	Prev,
	/// seek to the i-th key of the case's key universe
	Seek(u16),
}

/// Cursor over a sorted list. `pos`: None = invalid.
#[derive(Debug, Clone)]
pub struct CursorModel {
	pub items: Vec<(Key, Val)>,
	pub pos: Option<usize>,
	/// ran off an end (after which only seeks are defined)
	pub off_end: bool,
}

impl CursorModel {
	pub fn new(items: Vec<(Key, Val)>) -> Self {
		CursorModel { items, pos: None, off_end: false }
	}
	pub fn seek_first(&mut self) {
		self.off_end = false;
		self.pos = if self.items.is_empty() { None } else { Some(0) };
	}
	pub fn seek_last(&mut self) {
		self.off_end = false;
		self.pos = if self.items.is_empty() { None } else { Some(self.items.len() - 1) };
	}
	pub fn seek(&mut self, target: &[u8]) {
		self.off_end = false;
		let i = self.items.partition_point(|(k, _)| k.as_slice() < target);
		self.pos = if i < self.items.len() { Some(i) } else { None };
	}
	pub fn next(&mut self) {
		match self.pos {
			Some(i) if i + 1 < self.items.len() => self.pos = Some(i + 1),
			Some(_) => {
				self.pos = None;
				self.off_end = true;
			}
			None => self.off_end = true,
		}
	}
	pub fn prev(&mut self) {
		match self.pos {
			Some(i) if i > 0 => self.pos = Some(i - 1),
			Some(_) => {
				self.pos = None;
				self.off_end = true;
			}
			None => self.off_end = true,
		}
	}
	pub fn current(&self) -> Option<&(Key, Val)> {
		self.pos.map(|i| &self.items[i])
	}
}
