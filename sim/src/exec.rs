//! Executor: runs a plan against the real store on one OS thread under the simulator's
//! scheduler, with the reference model alongside. Every discrepancy stops the run with a
//! `Violation`.

use std::cell::{Cell, RefCell};
use std::collections::{BTreeMap, BTreeSet, HashMap};
use std::future::Future;
use std::path::{Path, PathBuf};
use std::pin::Pin;
use std::rc::Rc;
use std::sync::atomic::{AtomicBool, Ordering};
use std::sync::Arc;
use std::task::{Context, Poll, Wake, Waker};

use surrealkv::{
	CompressionType, Durability, Error as KvError, HistoryOptions, LSMIterator, Mode, Options, Transaction, Tree,
	TreeBuilder, VLogChecksumLevel, WalRecoveryMode,
};

use crate::disk::Op;
use crate::interpose as ip;
use crate::model::*;
use crate::plan::*;

#[derive(Debug, Clone, serde::Serialize, serde::Deserialize, PartialEq)]
pub struct Violation {
	pub class: String,
	pub detail: String,
	/// name of the known-finding explanation predicate that accounts for all of it
	#[serde(default)]
	pub explained: Option<String>,
}

impl Violation {
	pub fn new(class: &str, detail: String) -> Self {
		Violation { class: class.to_string(), detail, explained: None }
	}
}

#[derive(Debug, Clone, Default, serde::Serialize, serde::Deserialize)]
pub struct Stats {
	pub steps: u64,
	pub nested_steps: u64,
	pub commits_ok: u64,
	pub commits_conflict: u64,
	pub commits_retry: u64,
	pub commits_err: u64,
	pub reads: u64,
	pub probes: u64,
	pub cursor_ops: u64,
	pub shape_changes: u64,
	pub flushes: u64,
	pub reopens: u64,
	pub sim_time_ns: u64,
	pub labels: BTreeMap<String, u64>,
	pub level_shapes: BTreeSet<String>,
	pub interleaving: u64,
	pub bg_errors: u64,
}

#[derive(Debug, Clone)]
pub struct FailedCommit {
	pub actor: usize,
	pub txn: u64,
	pub class: String,
	pub start_seq: u64,
	pub keys: Vec<Key>,
	/// op-log position at which commit() was invoked (0 if unknown)
	pub op_at_invoke: usize,
}

pub struct Outcome {
	pub failed_commits: Vec<FailedCommit>,
	pub violation: Option<Violation>,
	pub stats: Stats,
	pub ops: Vec<Op>,
	pub events: Vec<String>,
	pub model: Model,
	pub fired: Vec<(usize, crate::disk::FaultKind, String, crate::disk::FaultAction)>,
	pub selfcheck: Result<(), String>,
}

struct Flag(AtomicBool);
impl Wake for Flag {
	fn wake(self: Arc<Self>) {
		self.0.store(true, Ordering::SeqCst);
	}
}

type CommitFut = Pin<Box<dyn Future<Output = (Box<Transaction>, surrealkv::Result<()>)>>>;

struct OpenCur {
	it: Box<dyn LSMIterator>,
	model: CursorModel,
}

#[derive(Default)]
struct Actor {
	// NOTE field order: cursor must drop before txn
	cursor: Option<OpenCur>,
	txn: Option<Box<Transaction>>,
	tm: Option<TxnModel>,
	fut: Option<CommitFut>,
	txn_id: u64,
}

struct PendingCommit {
	start_seq: u64,
	txn_id: u64,
	writes: Vec<Write>,
	sync: bool,
	commit_ts: u64,
	op_at_invoke: usize,
}

pub struct Sh {
	pub plan: Plan,
	pub root: PathBuf,
	tree: RefCell<Option<Rc<Tree>>>,
	actors: Vec<RefCell<Actor>>,
	pub model: RefCell<Model>,
	cur_actor: Cell<Option<usize>>,
	pending: RefCell<HashMap<usize, PendingCommit>>,
	window_counts: RefCell<HashMap<String, u32>>,
	depth: Cell<u32>,
	viol: RefCell<Option<Violation>>,
	events: RefCell<Vec<String>>,
	pub stats: RefCell<Stats>,
	max_horizon: Cell<u64>,
	/// after a restore (until the next reopen): a horizon may not lie beyond the highest
	/// sequence number allocated in the restored timeline
	ahead_check: Cell<bool>,
	gates: RefCell<Vec<(&'static str, Waker)>>,
	free_run: Cell<bool>,
	txn_counter: Cell<u64>,
	faults_active: Cell<bool>,
	checkpoint_model: RefCell<Option<Model>>,
	checkpoint_model_b: RefCell<Option<Model>>,
	step_ix: Cell<usize>,
	failed_commits: RefCell<Vec<FailedCommit>>,
	/// a compaction / flush is executing further down the stack (the store has one level
	/// task and one flush task: such work is never nested inside itself)
	in_compaction: Cell<u32>,
	in_flush: Cell<u32>,
	in_checkpoint: Cell<bool>,
	/// finite retention only: how far the simulated clock was moved forward to absorb the
	/// drift of the store's logical clock; plan timestamps are shifted by the same amount
	drift: Cell<u64>,
	closing: Cell<bool>,
}

pub const SCAN_LO: &[u8] = &[0u8];
pub const SCAN_HI: &[u8] = &[0xff, 0xff, 0xff, 0xff, 0xff, 0xff, 0xff, 0xff, 0xff];

pub fn build_options(o: &StoreOpts, path: &Path) -> Options {
	let mut opts = Options::new()
		.with_path(path.to_path_buf())
		.with_level_count(o.level_count)
		.with_max_memtable_size(o.memtable)
		.with_block_size(o.block)
		.with_block_restart_interval(o.restart)
		.with_index_partition_size(o.partition)
		.with_block_cache_capacity(o.cache)
		.with_flush_on_close(o.flush_on_close)
		.with_memtable_stall_threshold(o.memtable_stall)
		.with_l0_stall_threshold(o.l0_stall);
	if !o.filter {
		opts = opts.with_filter_policy(None);
	}
	if !o.compression.is_empty() {
		opts = opts.with_compression_per_level(
			o.compression.iter().map(|c| if *c == 1 { CompressionType::SnappyCompression } else { CompressionType::None }).collect(),
		);
	}
	if o.versioning {
		opts = opts.with_versioning(true, o.retention_ns);
		opts = opts.with_versioned_index(o.versioned_index);
		opts = opts.with_vlog_max_file_size(o.vlog_max_file);
	} else if o.vlog {
		opts = opts.with_enable_vlog(true).with_vlog_value_threshold(o.vlog_threshold).with_vlog_max_file_size(o.vlog_max_file);
	}
	if o.vlog_checksum_full {
		opts = opts.with_vlog_checksum_verification(VLogChecksumLevel::Full);
	}
	if o.absolute_consistency {
		opts = opts.with_wal_recovery_mode(WalRecoveryMode::AbsoluteConsistency);
	}
	opts.level0_max_files = o.l0_max;
	opts.max_bytes_for_level = o.max_bytes_level;
	opts.level_multiplier = o.multiplier_x10 as f64 / 10.0;
	opts
}

pub fn open_store(o: &StoreOpts, path: &Path) -> surrealkv::Result<Tree> {
	TreeBuilder::with_options(build_options(o, path)).build()
}

/// Plan timestamps are offsets from the simulated epoch.
/// The store's logical clock is strictly monotonic: every reading moves it at least one tick,
/// and a compaction reads it for every version while simulated time stands still, so during a
/// run it drifts ahead of the simulated clock (a few thousand ticks over dozens of compaction
/// rounds). Versions this close to the edge of the retention window are not required.
const RETENTION_SLACK_NS: u64 = 5_000;

pub fn abs_ts(t: u64) -> u64 {
	ip::SIM_EPOCH_NS + t
}

fn to_mode(m: ModeS) -> Mode {
	match m {
		ModeS::ReadWrite => Mode::ReadWrite,
		ModeS::ReadOnly => Mode::ReadOnly,
		ModeS::WriteOnly => Mode::WriteOnly,
	}
}

fn err_class(e: &KvError) -> &'static str {
	match e {
		KvError::TransactionReadOnly => "ReadOnly",
		KvError::TransactionWriteOnly => "WriteOnly",
		KvError::TransactionClosed => "Closed",
		KvError::EmptyKey => "EmptyKey",
		KvError::TransactionWithoutSavepoint => "NoSavepoint",
		KvError::TransactionWriteConflict => "Conflict",
		KvError::TransactionRetry => "Retry",
		KvError::PipelineStall => "PipelineStall",
		KvError::CommitFail(_) => "CommitFail",
		_ => "Other",
	}
}

fn exp_class(e: ExpectErr) -> &'static str {
	match e {
		ExpectErr::ReadOnly => "ReadOnly",
		ExpectErr::WriteOnly => "WriteOnly",
		ExpectErr::Closed => "Closed",
		ExpectErr::EmptyKey => "EmptyKey",
		ExpectErr::NoSavepoint => "NoSavepoint",
	}
}

pub fn hex(b: &[u8]) -> String {
	if b.iter().all(|c| c.is_ascii_graphic()) {
		String::from_utf8_lossy(b).to_string()
	} else {
		format!("0x{}", b.iter().map(|c| format!("{:02x}", c)).collect::<String>())
	}
}

fn fmt_kv(items: &[(Key, Val)]) -> String {
	let parts: Vec<String> = items
		.iter()
		.map(|(k, v)| format!("{}={}", hex(k), hex(&v[..v.len().min(12)])))
		.collect();
	format!("[{}]", parts.join(", "))
}

impl Sh {
	pub fn new(plan: Plan, root: PathBuf) -> Rc<Sh> {
		let n_actors = plan
			.steps
			.iter()
			.chain(plan.windows.iter().flat_map(|w| w.steps.iter()))
			.filter_map(|s| s.actor())
			.max()
			.map(|m| m as usize + 1)
			.unwrap_or(1);
		let versioning = plan.opts.versioning;
		let plan_has_faults = plan.faults.is_empty();
		Rc::new(Sh {
			plan,
			root,
			tree: RefCell::new(None),
			actors: (0..n_actors).map(|_| RefCell::new(Actor::default())).collect(),
			model: RefCell::new(Model { commits: vec![], versioning }),
			cur_actor: Cell::new(None),
			pending: RefCell::new(HashMap::new()),
			window_counts: RefCell::new(HashMap::new()),
			depth: Cell::new(0),
			viol: RefCell::new(None),
			events: RefCell::new(Vec::new()),
			stats: RefCell::new(Stats::default()),
			max_horizon: Cell::new(0),
			ahead_check: Cell::new(false),
			gates: RefCell::new(Vec::new()),
			free_run: Cell::new(false),
			txn_counter: Cell::new(0),
			faults_active: Cell::new(!plan_has_faults),
			checkpoint_model: RefCell::new(None),
			checkpoint_model_b: RefCell::new(None),
			step_ix: Cell::new(0),
			failed_commits: RefCell::new(Vec::new()),
			in_compaction: Cell::new(0),
			in_flush: Cell::new(0),
			in_checkpoint: Cell::new(false),
			drift: Cell::new(0),
			closing: Cell::new(false),
		})
	}

	pub fn violated(&self) -> bool {
		self.viol.borrow().is_some()
	}

	pub fn fail(&self, class: &str, detail: String) {
		let mut v = self.viol.borrow_mut();
		if v.is_none() {
			*v = Some(Violation { class: class.to_string(), detail: format!("step {}: {}", self.step_ix.get(), detail), explained: None });
		}
	}

	/// Like `fail`, but first asks whether the rotation-straddle finding accounts for the
	/// whole discrepancy: only possible after a reopen / recovery in this session, and only
	/// if every differing key holds a value reachable by dropping writes of straddled
	/// transactions only.
	fn fail_reads(&self, class: &str, detail: String, h: u64, got: &dyn Fn(&[u8]) -> Option<Option<Val>>, keys: &[Key]) {
		let mut explained = None;
		// known finding "post_wal_failure_not_undone": under injected faults, writes of a
		// commit that failed after its WAL append may be (partly) visible
		if explained.is_none() && self.faults_active.get() {
			let m = self.model.borrow();
			let ghost = |c: &Commit| c.status == Status::Failed;
			if m.commits.iter().any(|c| ghost(c)) {
				let ok = keys.iter().all(|k| match got(k) {
					Some(g) => m.possible2(k, h, &|_| false, &ghost).contains(&g),
					None => true,
				});
				if ok {
					explained = Some("post_wal_failure_not_undone".to_string());
				}
			}
		}
		// (F1 is repaired: labels the report only, evaluated after the open finding's predicate)
		if explained.is_none() && (self.stats.borrow().reopens > 0 || self.plan.steps.iter().any(|s| matches!(s, Step::RecoverSettle))) {
			let m = self.model.borrow();
			if m.commits.iter().any(|c| c.straddled() && c.last_seq <= h) {
				let ok = keys.iter().all(|k| match got(k) {
					Some(g) => m.possible(k, h, &|c| c.straddled()).contains(&g),
					None => true,
				});
				if ok {
					explained = Some("rotation_straddle".to_string());
				}
			}
		}
		let mut v = self.viol.borrow_mut();
		if v.is_none() {
			*v = Some(Violation {
				class: class.to_string(),
				detail: format!("step {}: {}{}", self.step_ix.get(), detail, explained.as_ref().map(|e| format!(" [explained by known finding {}]", e)).unwrap_or_default()),
				explained,
			});
		}
	}

	fn ev(&self, s: String) {
		self.events.borrow_mut().push(s);
	}

	pub fn tree(&self) -> Option<Rc<Tree>> {
		self.tree.borrow().clone()
	}

	fn key(&self, k: u16) -> Vec<u8> {
		self.plan.keys.get(k as usize).cloned().unwrap_or_else(|| format!("k{:03}", k).into_bytes())
	}

	fn bound(&self, b: Option<u16>) -> Option<Vec<u8>> {
		b.map(|k| self.key(k))
	}

	// ---------- hooks ----------
	pub fn install_hooks(self: &Rc<Self>) {
		let a = Rc::clone(self);
		let b = Rc::clone(self);
		let c = Rc::clone(self);
		surrealkv::verif::install(surrealkv::verif::Hooks {
			want_async: Rc::new(move |label| a.want_async(label)),
			on_sync: Rc::new(move |label| b.on_sync(label)),
			on_note: Rc::new(move |k, x, y| c.on_note(k, x, y)),
		});
		surrealkv::verif::set_oracle_gc_interval(self.plan.opts.oracle_gc);
	}

	fn want_async(&self, label: &'static str) -> bool {
		*self.stats.borrow_mut().labels.entry(label.to_string()).or_insert(0) += 1;
		if self.free_run.get() {
			return false;
		}
		if label.starts_with("task.") {
			self.plan.gate_tasks
		} else {
			self.plan.async_yields && self.cur_actor.get().is_some()
		}
	}

	fn on_note(&self, kind: &'static str, x: u64, y: u64) {
		match kind {
			"commit.seq" => {
				if let Some(a) = self.cur_actor.get() {
					if let Some(p) = self.pending.borrow_mut().remove(&a) {
						let c = Commit {
							txn: p.txn_id,
							first_seq: x,
							last_seq: x + y - 1,
							writes: p.writes,
							commit_ts: p.commit_ts,
							status: Status::InFlight,
							op_at_seq: ip::op_count(),
							op_at_ack: None,
							durable_sync: p.sync,
							logged_wal: None,
							applied_wal: None,
							start_seq: p.start_seq,
							ghost_ok: true,
						};
						self.ev(format!("seq a{} txn{} {}..{}", a, c.txn, c.first_seq, c.last_seq));
						self.model.borrow_mut().add_commit(c);
					}
				}
			}
			"wal.append" => {
				let mut m = self.model.borrow_mut();
				if let Some(c) = m.commits.iter_mut().rev().find(|c| c.first_seq == x) {
					c.logged_wal = Some(y);
				}
			}
			"apply.memtable" => {
				let mut m = self.model.borrow_mut();
				if let Some(c) = m.commits.iter_mut().rev().find(|c| c.first_seq == x) {
					c.applied_wal = Some(y);
				}
			}
			"flush.done" => {
				self.stats.borrow_mut().flushes += 1;
				// position of the completed flush in the op log (y = WAL number of the memtable)
				ip::marker(format!("flush done wal={}", y));
			}
			_ => {}
		}
	}

	fn on_sync(self: &Rc<Self>, label: &'static str) {
		*self.stats.borrow_mut().labels.entry(label.to_string()).or_insert(0) += 1;
		if self.free_run.get() || self.violated() {
			return;
		}
		let nth = {
			let mut wc = self.window_counts.borrow_mut();
			let c = wc.entry(label.to_string()).or_insert(0);
			*c += 1;
			*c
		};
		if self.depth.get() >= 2 {
			return;
		}
		let steps: Vec<Step> = self
			.plan
			.windows
			.iter()
			.filter(|w| w.label == label && w.nth == nth)
			.flat_map(|w| w.steps.iter().cloned())
			.collect();
		if steps.is_empty() {
			return;
		}
		// a commit made while create_checkpoint is running may or may not be part of the
		// checkpoint (it depends on which side of the memtable rotation it lands): the model
		// has one answer per checkpoint, so windows with transaction steps stay closed then
		if self.in_checkpoint.get() && steps.iter().any(|s| s.actor().is_some()) {
			return;
		}
		self.ev(format!("window {}#{} ({} steps)", label, nth, steps.len()));
		self.depth.set(self.depth.get() + 1);
		let saved = self.cur_actor.get();
		for s in &steps {
			if self.violated() {
				break;
			}
			self.stats.borrow_mut().nested_steps += 1;
			self.step_sync(s);
		}
		self.cur_actor.set(saved);
		self.depth.set(self.depth.get() - 1);
	}

	// ---------- store lifecycle ----------
	pub fn open(&self) -> Result<(), String> {
		match open_store(&self.plan.opts, &self.root) {
			Ok(t) => {
				*self.tree.borrow_mut() = Some(Rc::new(t));
				Ok(())
			}
			Err(e) => Err(e.to_string()),
		}
	}

	/// Drop every actor's transaction / cursor / in-flight future.
	fn drop_actors(&self) {
		for a in &self.actors {
			if let Ok(mut a) = a.try_borrow_mut() {
				a.cursor = None;
				a.fut = None;
				a.txn = None;
				a.tm = None;
			}
		}
		self.pending.borrow_mut().clear();
	}

	fn release_gates(&self) {
		let g: Vec<_> = self.gates.borrow_mut().drain(..).collect();
		for (_, w) in g {
			w.wake();
		}
	}

	fn collect_gates(&self) {
		let parked = surrealkv::verif::take_parked();
		for (l, w) in parked {
			self.ev(format!("gate {}", l));
			self.gates.borrow_mut().push((l, w));
		}
	}

	async fn settle(&self) {
		tokio::task::yield_now().await;
		self.collect_gates();
	}

	pub async fn close_store(&self) -> Result<(), String> {
		self.drop_actors();
		let t = self.tree.borrow_mut().take();
		let mut res = Ok(());
		if let Some(t) = t {
			self.free_run.set(true);
			self.release_gates();
			let r = self.drive(t.close()).await;
			if let Err(e) = r {
				res = Err(e.to_string());
			}
			drop(t);
			for _ in 0..4 {
				tokio::task::yield_now().await;
				self.release_gates();
				self.collect_gates();
				self.release_gates();
			}
			self.free_run.set(false);
		}
		res
	}

	/// The checkpoint directory must open as a database with the checkpointed content.
	async fn verify_checkpoint(&self) {
		let cm = match self.checkpoint_model.borrow().clone() {
			Some(m) => m,
			None => return,
		};
		let src = self.checkpoint_dir();
		let mut dst = src.clone();
		dst.set_file_name(format!("{}_open", src.file_name().unwrap().to_string_lossy()));
		let _ = std::fs::remove_dir_all(&dst);
		fn copy_dir(a: &Path, b: &Path) -> std::io::Result<()> {
			std::fs::create_dir_all(b)?;
			for e in std::fs::read_dir(a)? {
				let e = e?;
				let p = e.path();
				let q = b.join(e.file_name());
				if p.is_dir() {
					copy_dir(&p, &q)?;
				} else {
					std::fs::write(&q, std::fs::read(&p)?)?;
				}
			}
			Ok(())
		}
		if let Err(e) = copy_dir(&src, &dst) {
			self.fail("harness", format!("copying checkpoint failed: {}", e));
			return;
		}
		match open_store(&self.plan.opts, &dst) {
			Ok(t) => {
				tokio::task::yield_now().await;
				let mut keys = self.plan.keys.clone();
				for k in cm.all_keys() {
					if !keys.contains(&k) {
						keys.push(k);
					}
				}
				let want = cm.live(u64::MAX);
				match crate::recovery::read_all(&t, &keys) {
					Ok(got) => {
						if got != want {
							self.fail("standalone_mismatch", format!("checkpoint directory opened as a database shows {} entries, the checkpointed state has {} (first difference: {:?})", got.len(), want.len(), want.iter().find(|(k, v)| got.get(*k) != Some(*v)).map(|(k, _)| hex(k))));
						}
					}
					Err(v) => self.fail(&v.class, format!("checkpoint directory opened standalone: {}", v.detail)),
				}
				let _ = self.drive(t.close()).await;
				drop(t);
				for _ in 0..3 {
					tokio::task::yield_now().await;
				}
			}
			Err(e) => self.fail("standalone_mismatch", format!("checkpoint directory does not open as a database: {}", e)),
		}
		let _ = std::fs::remove_dir_all(&dst);
	}

	/// close() issued while commits are in flight: drive close() from the root while the
	/// actors keep being polled; afterwards every commit() must have returned.
	pub async fn close_concurrently(self: &Rc<Self>) {
		let t = match self.tree.borrow_mut().take() {
			Some(t) => t,
			None => return,
		};
		self.closing.set(true);
		self.ev("close (concurrent)".into());
		let mut fut = Box::pin(tokio::task::unconstrained(t.close()));
		let flag = Arc::new(Flag(AtomicBool::new(true)));
		let waker = Waker::from(Arc::clone(&flag));
		let mut turns = 0u32;
		let mut result = None;
		while result.is_none() {
			let mut cx = Context::from_waker(&waker);
			if let Poll::Ready(r) = fut.as_mut().poll(&mut cx) {
				result = Some(r);
				break;
			}
			// the plan decides nothing here any more: everybody gets turns
			tokio::task::yield_now().await;
			self.collect_gates();
			self.release_gates();
			for a in 0..self.actors.len() {
				let has = self.actors[a].try_borrow().map(|x| x.fut.is_some()).unwrap_or(false);
				if has {
					self.poll_only(a);
				}
			}
			turns += 1;
			if turns % 3 == 0 {
				tokio::time::advance(std::time::Duration::from_millis(50)).await;
				self.stats.borrow_mut().sim_time_ns += 50_000_000;
			}
			if turns > 5000 {
				self.fail("no_progress", "close() did not return within 5000 scheduler turns (250 s of simulated time) although every task and committer kept getting turns".into());
				return;
			}
		}
		drop(fut);
		if let Some(Err(e)) = result {
			if !self.faults_active.get() {
				self.fail("close_failed", e.to_string());
			}
		}
		// every commit() call must return now
		for round in 0..400 {
			let mut any = false;
			for a in 0..self.actors.len() {
				let has = self.actors[a].try_borrow().map(|x| x.fut.is_some()).unwrap_or(false);
				if has {
					any = true;
					self.poll_only(a);
				}
			}
			if !any {
				break;
			}
			tokio::task::yield_now().await;
			self.collect_gates();
			self.release_gates();
			if round % 3 == 0 {
				tokio::time::advance(std::time::Duration::from_millis(50)).await;
			}
			if round == 399 {
				let stuck: Vec<usize> = (0..self.actors.len()).filter(|a| self.actors[*a].try_borrow().map(|x| x.fut.is_some()).unwrap_or(false)).collect();
				self.fail("no_progress", format!("commit() of actors {:?} never returned after close() had returned", stuck));
				return;
			}
		}
		self.drop_actors();
		drop(t);
		self.free_run.set(true);
		for _ in 0..4 {
			tokio::task::yield_now().await;
			self.collect_gates();
			self.release_gates();
		}
		self.free_run.set(false);
	}

	fn poll_only(self: &Rc<Self>, ai: usize) {
		if let Ok(mut g) = self.actors[ai].try_borrow_mut() {
			let saved = self.cur_actor.replace(Some(ai));
			let act = &mut *g;
			self.poll_commit(act, ai);
			self.cur_actor.set(saved);
		}
	}

	/// Simulated crash: freeze the disk, then drop everything.
	pub async fn crash_store(&self) {
		ip::freeze();
		self.drop_actors();
		let t = self.tree.borrow_mut().take();
		self.free_run.set(true);
		self.release_gates();
		drop(t);
		for _ in 0..6 {
			tokio::task::yield_now().await;
			self.collect_gates();
			self.release_gates();
			tokio::time::advance(std::time::Duration::from_millis(60)).await;
		}
		self.free_run.set(false);
	}

	/// Drive a store future to completion from the root task, letting tokio tasks and
	/// timers run in between.
	async fn drive<T>(&self, fut: impl Future<Output = T>) -> T {
		let mut fut = Box::pin(tokio::task::unconstrained(fut));
		let flag = Arc::new(Flag(AtomicBool::new(true)));
		let waker = Waker::from(Arc::clone(&flag));
		let mut spins = 0u32;
		loop {
			let mut cx = Context::from_waker(&waker);
			if let Poll::Ready(v) = fut.as_mut().poll(&mut cx) {
				return v;
			}
			tokio::task::yield_now().await;
			self.collect_gates();
			if self.free_run.get() {
				self.release_gates();
			}
			spins += 1;
			if !flag.0.swap(false, Ordering::SeqCst) || spins % 4 == 0 {
				tokio::time::advance(std::time::Duration::from_millis(50)).await;
				self.stats.borrow_mut().sim_time_ns += 50_000_000;
			}
			if spins > 10_000 {
				self.fail("hang", "driven future did not complete within 10000 scheduler turns".into());
				// cannot return T; abandon by panicking into the case's catch_unwind
				panic!("skvsim: driven future hang");
			}
		}
	}

	// ---------- main loop ----------
	pub async fn run(self: &Rc<Self>) {
		let steps = self.plan.steps.clone();
		for (i, s) in steps.iter().enumerate() {
			if self.violated() {
				break;
			}
			self.step_ix.set(i);
			self.stats.borrow_mut().steps += 1;
			match s {
				Step::Reopen => {
					if let Err(e) = self.close_store().await {
						if !self.faults_active.get() {
							self.fail("close_failed", e);
						}
					}
					self.stats.borrow_mut().reopens += 1;
					self.ahead_check.set(false);
					if let Err(e) = self.open() {
						self.fail("reopen_failed", e);
					}
				}
				Step::Close => {
					if self.plan.params.get("close_concurrent").copied().unwrap_or(0) == 1 {
						self.close_concurrently().await;
					} else if let Err(e) = self.close_store().await {
						if !self.faults_active.get() {
							self.fail("close_failed", e);
						}
					}
				}
				Step::ReleaseFlushTask | Step::ReleaseLevelTask => {
					let want = if matches!(s, Step::ReleaseFlushTask) { "task.flush.head" } else { "task.level.head" };
					let w = {
						let mut g = self.gates.borrow_mut();
						g.iter().position(|(l, _)| *l == want).map(|p| g.remove(p))
					};
					if let Some((l, w)) = w {
						self.ev(format!("release {}", l));
						w.wake();
					}
				}
				Step::VerifyCheckpoint => self.verify_checkpoint().await,
				Step::Advance { ns } => {
					ip::advance_clock(*ns);
					self.stats.borrow_mut().sim_time_ns += *ns;
				}
				other => self.step_sync(other),
			}
			// "defer_spawned": work the store spawned onto the runtime during this step (e.g. the
			// WAL clean-up a flush schedules) does not get its turn before a following restore /
			// checkpoint / close: it then runs against the state those operations leave behind
			let defer = self.plan.params.get("defer_spawned").copied().unwrap_or(0) == 1
				&& matches!(steps.get(i + 1), Some(Step::Restore | Step::RestoreB | Step::Checkpoint | Step::CheckpointB | Step::Reopen | Step::Close));
			if !defer {
				self.settle().await;
			}
		}
	}

	/// Drain: poll every in-flight commit until all are resolved (bounded).
	pub async fn drain(self: &Rc<Self>) {
		let mut idle_rounds = 0;
		for round in 0..2000 {
			if self.violated() {
				return;
			}
			let mut any = false;
			let mut progressed = false;
			for a in 0..self.actors.len() {
				let has = self.actors[a].try_borrow().map(|x| x.fut.is_some()).unwrap_or(false);
				if has {
					any = true;
					let before = self.events.borrow().len();
					self.step_sync(&Step::Poll { a: a as u8 });
					if self.events.borrow().len() != before {
						progressed = true;
					}
				}
			}
			if !any {
				return;
			}
			self.settle().await;
			// let background tasks run freely during the drain
			self.release_gates();
			self.settle().await;
			if !progressed {
				idle_rounds += 1;
				tokio::time::advance(std::time::Duration::from_millis(50)).await;
			} else {
				idle_rounds = 0;
			}
			if idle_rounds > 200 || round == 1999 {
				let stuck: Vec<usize> = (0..self.actors.len())
					.filter(|a| self.actors[*a].try_borrow().map(|x| x.fut.is_some()).unwrap_or(false))
					.collect();
				let diag = match self.tree() {
					Some(t) => format!(
						"immutables={} level_shape={:?} bg_error={:?} gates={:?}",
						t.verif_immutable_count(),
						t.verif_level_shape().iter().map(|l| l.len()).collect::<Vec<_>>(),
						t.verif_background_error(),
						self.gates.borrow().iter().map(|g| g.0).collect::<Vec<_>>()
					),
					None => "store closed".into(),
				};
				self.fail("no_progress", format!("commit() of actors {:?} never returned after faults stopped and background work drained ({})", stuck, diag));
				return;
			}
		}
	}

	// ---------- synchronous steps ----------
	pub fn step_sync(self: &Rc<Self>, s: &Step) {
		let tree = match self.tree() {
			Some(t) => t,
			None => return,
		};
		if let Some(a) = s.actor() {
			self.actor_step(&tree, a as usize, s);
			return;
		}
		match s {
			Step::Probe => self.probe(&tree),
			Step::Rotate => self.bg("rotate", tree.verif_rotate().map(|_| false)),
			Step::RotateFlushIfUnlocked => {
				if tree.verif_active_memtable_unlocked() && tree.verif_flush_lock_free() {
					self.ev("tripwire: active memtable unlocked inside a guarded window".into());
					self.bg("rotate", tree.verif_rotate().map(|_| false));
					self.in_flush.set(self.in_flush.get() + 1);
					let r = tree.verif_flush_all().map(|_| true);
					self.in_flush.set(self.in_flush.get() - 1);
					self.bg("flush_all", r);
				}
			}
			// The store serializes flushes (flush lock, fix 898a7dd): a flush step nested in a
			// window of another flush stands for a second flusher (background task vs a
			// checkpoint on the caller's thread) and would have to wait. It is skipped while the
			// lock is held (by a flush step further up this stack or by the store's own flush
			// task, in whose window this step runs) and RUN whenever the lock is observed free
			// (tripwire: on the unchanged tree that is never the case inside a flush).
			Step::FlushOne | Step::FlushAll if !tree.verif_flush_lock_free() => {}
			Step::Checkpoint | Step::CheckpointB if !tree.verif_flush_lock_free() => {}
			Step::CompactRound | Step::CompactAll if self.in_compaction.get() > 0 => {}
			Step::FlushOne => {
				self.in_flush.set(self.in_flush.get() + 1);
				let r = tree.verif_flush_one();
				self.in_flush.set(self.in_flush.get() - 1);
				// the flush task's body notifies the level task after a successful flush
				if matches!(r, Ok(true)) {
					tree.verif_wake_level_task();
				}
				self.bg("flush_one", r);
			}
			Step::FlushAll => {
				self.in_flush.set(self.in_flush.get() + 1);
				let r = tree.verif_flush_all().map(|_| true);
				self.in_flush.set(self.in_flush.get() - 1);
				if r.is_ok() {
					tree.verif_wake_level_task();
				}
				self.bg("flush_all", r);
			}
			Step::CompactRound => {
				self.in_compaction.set(self.in_compaction.get() + 1);
				let r = tree.verif_compact_round();
				self.in_compaction.set(self.in_compaction.get() - 1);
				self.bg("compact", r);
			}
			Step::CompactAll => {
				self.in_compaction.set(self.in_compaction.get() + 1);
				for _ in 0..16 {
					match tree.verif_compact_round() {
						Ok(true) => {
							self.note_shape(&tree);
							self.stats.borrow_mut().shape_changes += 1;
						}
						Ok(false) => break,
						Err(e) => {
							self.bg("compact", Err::<bool, _>(e));
							break;
						}
					}
				}
				self.in_compaction.set(self.in_compaction.get() - 1);
			}
			Step::FlushWal { sync } => {
				let r = tree.flush_wal(*sync);
				match r {
					Ok(()) => {
						if *sync {
							// every commit acknowledged so far is now power-loss durable
							let at = ip::marker("ack flush_wal(sync)".into());
							for c in self.model.borrow_mut().commits.iter_mut() {
								if c.status == Status::Acked && !c.durable_sync {
									c.durable_sync = true;
									c.op_at_ack = Some(at);
								}
							}
						}
					}
					Err(e) => {
						if !self.faults_active.get() {
							self.fail("flush_wal_failed", e.to_string());
						}
					}
				}
			}
			Step::WakeFlushTask => tree.verif_wake_flush_task(),
			Step::WakeLevelTask => tree.verif_wake_level_task(),
			Step::Faults { specs } => {
				ip::set_faults(specs.clone());
				self.faults_active.set(true);
			}
			Step::ClearFaults => {
				ip::clear_faults();
			}
			Step::RecoverSettle => self.recover_settle(&tree),
			Step::Checkpoint => self.checkpoint(&tree, false),
			Step::Restore => self.restore(&tree, false),
			Step::CheckpointB => self.checkpoint(&tree, true),
			Step::RestoreB => self.restore(&tree, true),
			_ => {}
		}
	}

	fn note_shape(&self, tree: &Tree) {
		let shape: Vec<usize> = tree.verif_level_shape().iter().map(|l| l.len()).collect();
		self.stats.borrow_mut().level_shapes.insert(format!("{:?}", shape));
	}

	fn bg(&self, what: &str, r: surrealkv::Result<bool>) {
		match r {
			Ok(changed) => {
				if changed {
					self.stats.borrow_mut().shape_changes += 1;
				}
				if let Some(t) = self.tree() {
					self.note_shape(&t);
				}
				self.ev(format!("bg {} {}", what, changed));
			}
			Err(e) => {
				self.stats.borrow_mut().bg_errors += 1;
				self.ev(format!("bg {} err", what));
				if !self.faults_active.get() {
					self.fail("background_error", format!("{} failed on a fault-free run: {}", what, e));
				}
			}
		}
	}

	fn checkpoint_dir(&self) -> PathBuf {
		let mut p = self.root.clone();
		let name = format!("{}_ckpt", p.file_name().unwrap().to_string_lossy());
		p.set_file_name(name);
		p
	}

	fn checkpoint_dir_of(&self, second: bool) -> PathBuf {
		let mut p = self.checkpoint_dir();
		if second {
			let name = format!("{}_b", p.file_name().unwrap().to_string_lossy());
			p.set_file_name(name);
		}
		p
	}

	fn checkpoint(&self, tree: &Tree, second: bool) {
		// only at quiescent points: no commit in flight
		let busy = self.actors.iter().any(|a| a.try_borrow().map(|x| x.fut.is_some()).unwrap_or(true));
		if busy {
			return;
		}
		let dir = self.checkpoint_dir_of(second);
		let _ = std::fs::remove_dir_all(&dir);
		// create_checkpoint flushes on the caller's thread
		self.in_flush.set(self.in_flush.get() + 1);
		self.in_checkpoint.set(true);
		let r = tree.create_checkpoint(&dir);
		self.in_checkpoint.set(false);
		self.in_flush.set(self.in_flush.get() - 1);
		match r {
			Ok(_) => {
				let slot = if second { &self.checkpoint_model_b } else { &self.checkpoint_model };
				*slot.borrow_mut() = Some(self.model.borrow().clone());
				self.ev("checkpoint".into());
			}
			Err(e) => self.fail("checkpoint_failed", e.to_string()),
		}
	}

	fn restore(&self, tree: &Tree, second: bool) {
		let cm = if second { self.checkpoint_model_b.borrow().clone() } else { self.checkpoint_model.borrow().clone() };
		let cm = match cm {
			Some(m) => m,
			None => return,
		};
		let busy = self.actors.iter().any(|a| a.try_borrow().map(|x| x.fut.is_some()).unwrap_or(true));
		if busy || self.depth.get() > 0 {
			return;
		}
		// transactions begun before the restore belong to the discarded timeline
		self.drop_actors();
		match tree.restore_from_checkpoint(self.checkpoint_dir_of(second)) {
			Ok(_) => {
				*self.model.borrow_mut() = cm;
				self.max_horizon.set(0);
				self.ahead_check.set(true);
				self.ev("restore".into());
			}
			Err(e) => self.fail("restore_failed", e.to_string()),
		}
	}

	fn recover_settle(&self, tree: &Tree) {
		let lo = self.plan.params.get("settle_lo").copied().unwrap_or(0) as u64;
		let hi = self.plan.params.get("settle_hi").copied().unwrap_or(i64::MAX) as u64;
		let mut keys = self.plan.keys.clone();
		let bounds;
		{
			let m = self.model.borrow();
			for k in m.all_keys() {
				if !keys.contains(&k) {
					keys.push(k);
				}
			}
			bounds = m.boundaries();
		}
		let got = match crate::recovery::read_all(tree, &keys) {
			Ok(g) => g,
			Err(v) => {
				self.fail(&v.class, v.detail);
				return;
			}
		};
		let (p, v) = crate::recovery::judge_contents(&self.model.borrow(), &got, lo, hi);
		match v {
			None => {
				let p = p.unwrap_or(0);
				self.model.borrow_mut().truncate_to(p);
				self.max_horizon.set(0);
				self.ev(format!("settled p={}", p));
			}
			Some(v) => {
				let mut g = self.viol.borrow_mut();
				if g.is_none() {
					*g = Some(v);
				}
			}
		}
		let _ = bounds;
	}

	// ---------- probe ----------
	pub fn probe(&self, tree: &Tree) {
		self.stats.borrow_mut().probes += 1;
		let floor = self.horizon_floor();
		let txn = match tree.begin_with_mode(Mode::ReadOnly) {
			Ok(t) => t,
			Err(e) => {
				self.fail("begin_failed", e.to_string());
				return;
			}
		};
		let h = txn.verif_start_seq();
		self.check_horizon(h, "probe", floor);
		if self.violated() {
			return;
		}
		let tm = TxnModel::new(ModeS::ReadOnly, h);
		self.compare_full(&txn, &tm, "probe");
	}

	/// `(max acknowledged sequence, max horizon handed out)` right now — to be captured when
	/// a begin is *invoked*: work nested inside the begin's own window is concurrent with it.
	fn horizon_floor(&self) -> (u64, u64) {
		(self.model.borrow().max_acked_seq(), self.max_horizon.get())
	}

	fn check_horizon(&self, h: u64, who: &str, floor: (u64, u64)) {
		let m = self.model.borrow();
		let acked = floor.0;
		if h < acked {
			self.fail(
				"horizon_behind_ack",
				format!("{}: transaction began at horizon {} although commit() had already returned for sequence {}", who, h, acked),
			);
			return;
		}
		if let Some(c) = m.splits_commit(h) {
			self.fail(
				"horizon_splits_commit",
				format!("{}: horizon {} falls inside transaction txn{} [{}..{}]", who, h, c.txn, c.first_seq, c.last_seq),
			);
			return;
		}
		if h < floor.1 {
			self.fail("horizon_backwards", format!("{}: horizon {} after a horizon {} was handed out", who, h, floor.1));
			return;
		}
		if self.ahead_check.get() {
			let allocated = m.commits.iter().map(|c| c.last_seq).max().unwrap_or(0);
			if h > allocated {
				self.fail(
					"horizon_ahead",
					format!("{}: after the restore a transaction began at horizon {} although the restored timeline has only allocated sequence numbers up to {}: it will see commits made after it began", who, h, allocated),
				);
				return;
			}
		}
		if h > self.max_horizon.get() {
			self.max_horizon.set(h);
		}
	}

	/// gets of every key + forward and backward full scans against the model.
	fn compare_full(&self, txn: &Transaction, tm: &TxnModel, who: &str) {
		let m = self.model.borrow();
		let mut keys: Vec<Key> = self.plan.keys.clone();
		for k in m.all_keys() {
			if !keys.contains(&k) {
				keys.push(k);
			}
		}
		for k in &keys {
			if k.is_empty() {
				continue;
			}
			self.stats.borrow_mut().reads += 1;
			let want = tm.get(&m, k);
			match txn.get(k.as_slice()) {
				Ok(got) => {
					if got != want {
						let kk = k.clone();
						let gg = got.clone();
						drop(m);
						self.fail_reads(
							"read_mismatch",
							format!(
								"{}: get({}) at horizon {} returned {:?}, model says {:?}",
								who,
								hex(k),
								tm.horizon,
								got.as_ref().map(|v| hex(v)),
								want.as_ref().map(|v| hex(v))
							),
							tm.horizon,
							&|q| if q == kk.as_slice() { Some(gg.clone()) } else { None },
							&[k.clone()],
						);
						return;
					}
				}
				Err(e) => {
					self.fail("read_error", format!("{}: get({}) failed: {}", who, hex(k), e));
					return;
				}
			}
		}
		let want = tm.view(&m, Some(SCAN_LO), Some(SCAN_HI));
		for rev in [false, true] {
			match scan(txn, SCAN_LO, SCAN_HI, rev) {
				Ok(mut got) => {
					if rev {
						got.reverse();
					}
					if got != want {
						let gm: BTreeMap<Key, Val> = got.iter().cloned().collect();
						let mut ks: Vec<Key> = keys.clone();
						for (k, _) in &got {
							if !ks.contains(k) {
								ks.push(k.clone());
							}
						}
						let detail = format!(
							"{}: {} scan at horizon {} returned {} but model says {}",
							who,
							if rev { "backward" } else { "forward" },
							tm.horizon,
							fmt_kv(&got),
							fmt_kv(&want)
						);
						let sorted = got.windows(2).all(|w| w[0].0 < w[1].0);
						drop(m);
						if sorted {
							self.fail_reads("scan_mismatch", detail, tm.horizon, &|q| Some(gm.get(q).cloned()), &ks);
						} else {
							self.fail("scan_mismatch", detail);
						}
						return;
					}
				}
				Err(e) => {
					self.fail("read_error", format!("{}: scan failed: {}", who, e));
					return;
				}
			}
		}
	}

	// ---------- actor steps ----------
	fn actor_step(self: &Rc<Self>, tree: &Tree, ai: usize, s: &Step) {
		let mut guard = match self.actors[ai].try_borrow_mut() {
			Ok(g) => g,
			Err(_) => return, // busy in an outer frame
		};
		let act = &mut *guard;
		let saved = self.cur_actor.replace(Some(ai));
		// an actor with a commit in flight can only continue it
		if act.fut.is_some() {
			self.poll_commit(act, ai);
			self.cur_actor.set(saved);
			return;
		}
		match s {
			Step::Begin { mode, .. } => {
				act.cursor = None;
				act.txn = None;
				act.tm = None;
				let floor = self.horizon_floor();
				match tree.begin_with_mode(to_mode(*mode)) {
					Ok(t) => {
						let h = t.verif_start_seq();
						self.check_horizon(h, &format!("actor {} begin", ai), floor);
						let id = self.txn_counter.get() + 1;
						self.txn_counter.set(id);
						act.txn_id = id;
						act.txn = Some(Box::new(t));
						act.tm = Some(TxnModel::new(*mode, h));
						self.ev(format!("begin a{} h={}", ai, h));
					}
					Err(e) => self.fail("begin_failed", e.to_string()),
				}
			}
			Step::Set { k, v, ts, .. } => {
				let key = self.key(*k);
				let val = value_bytes(v);
				self.do_write(act, ai, Write { key, kind: Kind::Set, value: Some(val), ts: ts.map(|t| abs_ts(t) + self.drift.get()) });
			}
			Step::Replace { k, v, .. } => {
				let key = self.key(*k);
				let val = value_bytes(v);
				self.do_write(act, ai, Write { key, kind: Kind::Replace, value: Some(val), ts: None });
			}
			Step::Delete { k, ts, .. } => {
				let key = self.key(*k);
				self.do_write(act, ai, Write { key, kind: Kind::Delete, value: None, ts: ts.map(|t| abs_ts(t) + self.drift.get()) });
			}
			Step::SoftDelete { k, ts, .. } => {
				let key = self.key(*k);
				self.do_write(act, ai, Write { key, kind: Kind::SoftDelete, value: None, ts: ts.map(|t| abs_ts(t) + self.drift.get()) });
			}
			Step::Get { k, .. } => {
				let key = self.key(*k);
				if let (Some(txn), Some(tm)) = (act.txn.as_ref(), act.tm.as_ref()) {
					self.stats.borrow_mut().reads += 1;
					let r = txn.get(key.as_slice());
					let m = self.model.borrow();
					match (tm.read_err(&key), r) {
						(Some(e), Err(got)) => {
							if err_class(&got) != exp_class(e) {
								self.fail("wrong_error", format!("actor {} get({}): expected {} got {}", ai, hex(&key), exp_class(e), got));
							}
						}
						(Some(e), Ok(_)) => self.fail("missing_error", format!("actor {} get({}) succeeded, expected {}", ai, hex(&key), exp_class(e))),
						(None, Ok(got)) => {
							let want = tm.get(&m, &key);
							if got != want {
								self.fail(
									"read_mismatch",
									format!(
										"actor {} get({}) at horizon {} returned {:?}, model says {:?}",
										ai,
										hex(&key),
										tm.horizon,
										got.as_ref().map(|v| hex(v)),
										want.as_ref().map(|v| hex(v))
									),
								);
							}
						}
						(None, Err(e)) => self.fail("read_error", format!("actor {} get({}) failed: {}", ai, hex(&key), e)),
					}
				}
			}
			Step::Scan { lo, hi, rev, .. } => {
				if let (Some(txn), Some(tm)) = (act.txn.as_ref(), act.tm.as_ref()) {
					if tm.closed || tm.mode == ModeS::WriteOnly {
						// error expectations for ranges are covered by Cursor steps
					} else {
						let lo_b = self.bound(*lo).unwrap_or_else(|| SCAN_LO.to_vec());
						let hi_b = self.bound(*hi).unwrap_or_else(|| SCAN_HI.to_vec());
						if lo_b <= hi_b {
							let m = self.model.borrow();
							let want = tm.view(&m, Some(&lo_b), Some(&hi_b));
							self.stats.borrow_mut().reads += 1;
							match scan(txn, &lo_b, &hi_b, *rev) {
								Ok(mut got) => {
									if *rev {
										got.reverse();
									}
									if got != want {
										self.fail(
											"scan_mismatch",
											format!(
												"actor {} {} scan [{}, {}) at horizon {} returned {} but model says {}",
												ai,
												if *rev { "backward" } else { "forward" },
												hex(&lo_b),
												hex(&hi_b),
												tm.horizon,
												fmt_kv(&got),
												fmt_kv(&want)
											),
										);
									}
								}
								Err(e) => self.fail("read_error", format!("actor {} scan failed: {}", ai, e)),
							}
						}
					}
				}
			}
			Step::Cursor { lo, hi, prog, .. } => {
				if let (Some(txn), Some(tm)) = (act.txn.as_ref(), act.tm.as_ref()) {
					if !tm.closed && tm.mode != ModeS::WriteOnly {
						self.cursor_program(txn, tm, ai, *lo, *hi, prog);
					}
				}
			}
			Step::OpenCursor { lo, hi, .. } => {
				act.cursor = None;
				if let (Some(txn), Some(tm)) = (act.txn.as_ref(), act.tm.as_ref()) {
					if !tm.closed && tm.mode != ModeS::WriteOnly {
						let lo_b = self.bound(*lo).unwrap_or_else(|| SCAN_LO.to_vec());
						let hi_b = self.bound(*hi).unwrap_or_else(|| SCAN_HI.to_vec());
						if lo_b <= hi_b {
							let m = self.model.borrow();
							let items = tm.view(&m, Some(&lo_b), Some(&hi_b));
							match txn.range(lo_b.clone(), hi_b.clone()) {
								Ok(it) => {
									let b: Box<dyn LSMIterator + '_> = Box::new(it);
									// SAFETY: the iterator borrows the boxed transaction, which has a stable
									// address; the cursor is always dropped before the transaction is
									// mutated or dropped (field order + explicit resets).
									let b: Box<dyn LSMIterator + 'static> = unsafe { std::mem::transmute(b) };
									act.cursor = Some(OpenCur { it: b, model: CursorModel::new(items) });
								}
								Err(e) => self.fail("read_error", format!("actor {} range() failed: {}", ai, e)),
							}
						}
					}
				}
			}
			Step::CursorOp { op, .. } => {
				if let Some(c) = act.cursor.as_mut() {
					let keys = &self.plan.keys;
					if let Err(d) = apply_cur_op(c.it.as_mut(), &mut c.model, *op, keys) {
						self.fail("cursor_mismatch", format!("actor {} open cursor: {}", ai, d));
					}
					self.stats.borrow_mut().cursor_ops += 1;
				}
			}
			Step::CloseCursor { .. } => act.cursor = None,
			Step::Savepoint { .. } => {
				act.cursor = None;
				if let (Some(txn), Some(tm)) = (act.txn.as_mut(), act.tm.as_mut()) {
					let exp = if tm.mode == ModeS::ReadOnly {
						Some(ExpectErr::ReadOnly)
					} else if tm.closed {
						Some(ExpectErr::Closed)
					} else {
						None
					};
					let r = txn.set_savepoint();
					self.expect_unit(ai, "set_savepoint", exp, r);
					if exp.is_none() {
						tm.set_savepoint();
					}
				}
			}
			Step::RollbackSp { .. } => {
				act.cursor = None;
				if let (Some(txn), Some(tm)) = (act.txn.as_mut(), act.tm.as_mut()) {
					let exp = if tm.mode == ModeS::ReadOnly {
						Some(ExpectErr::ReadOnly)
					} else if tm.closed {
						Some(ExpectErr::Closed)
					} else if tm.savepoints.is_empty() {
						Some(ExpectErr::NoSavepoint)
					} else {
						None
					};
					let r = txn.rollback_to_savepoint();
					self.expect_unit(ai, "rollback_to_savepoint", exp, r);
					if exp.is_none() {
						tm.rollback_to_savepoint();
					}
				}
			}
			Step::Rollback { .. } => {
				act.cursor = None;
				if let (Some(txn), Some(tm)) = (act.txn.as_mut(), act.tm.as_mut()) {
					txn.rollback();
					tm.closed = true;
					tm.writes.clear();
					tm.savepoints.clear();
				}
			}
			Step::DropTxn { .. } => {
				act.cursor = None;
				act.txn = None;
				act.tm = None;
			}
			Step::Commit { sync, .. } => {
				act.cursor = None;
				self.start_commit(act, ai, *sync);
			}
			Step::Poll { .. } => {}
			Step::GetAt { k, ts, .. } => {
				let key = self.key(*k);
				if let (Some(txn), Some(tm)) = (act.txn.as_ref(), act.tm.as_ref()) {
					if !tm.closed && tm.mode != ModeS::WriteOnly && tm.writes.is_empty() && self.plan.opts.versioning {
						self.stats.borrow_mut().reads += 1;
						let m = self.model.borrow();
						let ts = &(abs_ts(*ts) + self.drift.get());
						let mut want = m.get_at(&key, *ts, tm.horizon);
						let retention = self.plan.opts.retention_ns;
						if retention > 0 {
							// the answering version may have aged out of the retention window and
							// been dropped (unless it is the key's newest): then any older
							// surviving version, or nothing, is a legitimate answer
							let vs = m.versions(&key, tm.horizon);
							let now = {
								// the store's own logical clock: strictly monotonic, so it runs ahead of the
								// simulated clock by one tick per reading while simulated time stands still
								// (a compaction reads it for every version)
								let t = self.tree.borrow().as_ref().map(|t| t.verif_clock_now()).unwrap_or(0);
								t.max(ip::advance_clock(0))
							};
							if let Some(best) = vs.iter().filter(|v| v.0 <= *ts).map(|v| v.0).max() {
								let newest = vs.iter().map(|v| v.0).max() == Some(best);
								if !newest && now.saturating_sub(best) + RETENTION_SLACK_NS > retention {
									want.push(None);
									for v in vs.iter().filter(|v| v.0 <= *ts) {
										let a = if v.2 == Kind::SoftDelete { None } else { v.3.clone() };
										if !want.contains(&a) {
											want.push(a);
										}
									}
								}
							}
						}
						match txn.get_at(key.as_slice(), *ts) {
							Ok(got) => {
								if !want.contains(&got) {
									self.fail(
										"get_at_mismatch",
										format!(
											"actor {} get_at({}, {}) at horizon {} returned {:?}, model allows {:?}",
											ai,
											hex(&key),
											ts,
											tm.horizon,
											got.as_ref().map(|v| hex(v)),
											want.iter().map(|w| w.as_ref().map(|v| hex(v))).collect::<Vec<_>>()
										),
									);
								}
							}
							Err(e) => self.fail("read_error", format!("actor {} get_at failed: {}", ai, e)),
						}
					}
				}
			}
			Step::History { lo, hi, tomb, ts_range, limit, rev, .. } => {
				if let (Some(txn), Some(tm)) = (act.txn.as_ref(), act.tm.as_ref()) {
					if !tm.closed && tm.mode != ModeS::WriteOnly && tm.writes.is_empty() && self.plan.opts.versioning {
						let (lo_b, hi_b) = (self.key(*lo), self.key(*hi));
						if lo_b <= hi_b {
							self.history_check(txn, tm, ai, &lo_b, &hi_b, *tomb, ts_range.map(|(a, b)| (abs_ts(a) + self.drift.get(), abs_ts(b) + self.drift.get())), *limit, *rev);
						}
					}
				}
			}
			_ => {}
		}
		self.cur_actor.set(saved);
	}

	fn expect_unit(&self, ai: usize, what: &str, exp: Option<ExpectErr>, r: surrealkv::Result<()>) {
		match (exp, r) {
			(None, Ok(())) => {}
			(Some(e), Err(got)) => {
				if err_class(&got) != exp_class(e) {
					self.fail("wrong_error", format!("actor {} {}: expected {} got {}", ai, what, exp_class(e), got));
				}
			}
			(Some(e), Ok(())) => self.fail("missing_error", format!("actor {} {} succeeded, expected {}", ai, what, exp_class(e))),
			(None, Err(e)) => self.fail("unexpected_error", format!("actor {} {} failed: {}", ai, what, e)),
		}
	}

	fn do_write(&self, act: &mut Actor, ai: usize, w: Write) {
		act.cursor = None;
		if let (Some(txn), Some(tm)) = (act.txn.as_mut(), act.tm.as_mut()) {
			let exp = tm.write_err(&w.key);
			let r = match (w.kind, w.ts) {
				(Kind::Set, None) => txn.set(w.key.as_slice(), w.value.clone().unwrap().as_slice()),
				(Kind::Set, Some(t)) => txn.set_at(w.key.as_slice(), w.value.clone().unwrap().as_slice(), t),
				(Kind::Replace, _) => txn.replace(w.key.as_slice(), w.value.clone().unwrap().as_slice()),
				(Kind::Delete, None) => txn.delete(w.key.as_slice()),
				(Kind::Delete, Some(t)) => {
					txn.delete_with_options(w.key.as_slice(), &surrealkv::WriteOptions::new().with_timestamp(Some(t)))
				}
				(Kind::SoftDelete, None) => txn.soft_delete(w.key.as_slice()),
				(Kind::SoftDelete, Some(t)) => {
					txn.soft_delete_with_options(w.key.as_slice(), &surrealkv::WriteOptions::new().with_timestamp(Some(t)))
				}
			};
			self.expect_unit(ai, "write", exp, r);
			if exp.is_none() {
				tm.write(w);
			}
		}
	}

	fn start_commit(self: &Rc<Self>, act: &mut Actor, ai: usize, sync: bool) {
		let (mut txn, tm) = match (act.txn.take(), act.tm.as_mut()) {
			(Some(t), Some(tm)) => (t, tm),
			(t, _) => {
				act.txn = t;
				return;
			}
		};
		// expected immediate errors
		let exp = if tm.closed {
			Some(ExpectErr::Closed)
		} else if tm.mode == ModeS::ReadOnly {
			Some(ExpectErr::ReadOnly)
		} else {
			None
		};
		txn.set_durability(if sync { Durability::Immediate } else { Durability::Eventual });
		// With finite retention every compaction reads the store's strictly monotonic logical
		// clock once per version while simulated time stands still, so that clock runs ahead of
		// the simulated one - and a commit would be stamped with the store's reading, not with
		// simulated time. Absorb the drift first: then the commit's reading IS simulated time.
		if self.plan.opts.versioning && self.plan.opts.retention_ns > 0 {
			if let Some(t) = self.tree.borrow().as_ref() {
				let store_now = t.verif_clock_now();
				let sim_now = ip::now();
				if store_now > sim_now {
					ip::set_now(store_now + 1);
					self.drift.set(self.drift.get() + store_now + 1 - sim_now);
				}
			}
		}
		let commit_ts = ip::advance_clock(1000);
		self.stats.borrow_mut().sim_time_ns += 1000;
		if exp.is_none() && !tm.writes.is_empty() {
			let op_at_invoke = ip::marker(format!("invoke commit txn{}", act.txn_id));
			self.pending.borrow_mut().insert(ai, PendingCommit { start_seq: tm.horizon, txn_id: act.txn_id, writes: tm.writes.clone(), sync, commit_ts, op_at_invoke });
		}
		self.ev(format!("commit a{} txn{} sync={}", ai, act.txn_id, sync));
		let fut: CommitFut = Box::pin(tokio::task::unconstrained(async move {
			let r = txn.commit().await;
			(txn, r)
		}));
		act.fut = Some(fut);
		if let Some(e) = exp {
			// must fail at once
			self.poll_commit(act, ai);
			if act.fut.is_some() {
				self.fail("missing_error", format!("actor {} commit did not fail with {}", ai, exp_class(e)));
			}
			return;
		}
		self.poll_commit(act, ai);
	}

	fn poll_commit(self: &Rc<Self>, act: &mut Actor, ai: usize) {
		let mut fut = match act.fut.take() {
			Some(f) => f,
			None => return,
		};
		let flag = Arc::new(Flag(AtomicBool::new(false)));
		let waker = Waker::from(Arc::clone(&flag));
		let mut cx = Context::from_waker(&waker);
		let before_parked = surrealkv::verif::parked_len();
		let r = fut.as_mut().poll(&mut cx);
		match r {
			Poll::Pending => {
				// parked at a yield point, or blocked in a tokio primitive
				let parked = surrealkv::verif::take_parked();
				let mut mine = None;
				for (l, w) in parked {
					if l.starts_with("task.") {
						self.gates.borrow_mut().push((l, w));
					} else {
						mine = Some(l);
					}
				}
				let _ = before_parked;
				match mine {
					Some(l) => {
						self.ev(format!("park a{} {}", ai, l));
						let mut st = self.stats.borrow_mut();
						st.interleaving = st.interleaving.wrapping_mul(0x100000001b3) ^ (ai as u64 * 131 + hash_label(l));
					}
					None => {
						// blocked; no event (keeps drain's progress detection honest)
					}
				}
				act.fut = Some(fut);
			}
			Poll::Ready((txn, res)) => {
				let pend = self.pending.borrow_mut().remove(&ai);
				let tm = act.tm.as_mut();
				let exp = tm.as_ref().and_then(|tm| {
					if tm.closed {
						Some(ExpectErr::Closed)
					} else if tm.mode == ModeS::ReadOnly {
						Some(ExpectErr::ReadOnly)
					} else {
						None
					}
				});
				match res {
					Ok(()) => {
						if let Some(e) = exp {
							self.fail("missing_error", format!("actor {} commit succeeded, expected {}", ai, exp_class(e)));
						}
						let mut m = self.model.borrow_mut();
						if let Some(c) = m.by_txn_mut(act.txn_id) {
							if c.status == Status::InFlight {
								c.status = Status::Acked;
								let at = ip::marker(format!("ack commit txn{} sync={}", act.txn_id, c.durable_sync));
								c.op_at_ack = Some(at);
							}
						} else if pend.is_some() {
							drop(m);
							self.fail("commit_without_seq", format!("actor {} commit of a non-empty write-set returned Ok without allocating sequence numbers", ai));
						}
						self.stats.borrow_mut().commits_ok += 1;
						self.ev(format!("ack a{} txn{}", ai, act.txn_id));
						if let Some(tm) = act.tm.as_mut() {
							tm.closed = true;
							tm.writes.clear();
							tm.savepoints.clear();
						}
						act.txn = Some(txn);
					}
					Err(e) => {
						let cls = err_class(&e);
						if let Some(x) = exp {
							if cls != exp_class(x) {
								self.fail("wrong_error", format!("actor {} commit: expected {} got {}", ai, exp_class(x), e));
							}
							act.txn = Some(txn);
						} else {
							{
								let mut m = self.model.borrow_mut();
								if let Some(c) = m.by_txn_mut(act.txn_id) {
									if c.status == Status::InFlight {
										c.status = Status::Failed;
									}
								}
							}
							let mut st = self.stats.borrow_mut();
							match cls {
								"Conflict" => st.commits_conflict += 1,
								"Retry" => st.commits_retry += 1,
								_ => st.commits_err += 1,
							}
							drop(st);
							let at_fail = ip::marker(format!("fail commit txn{} {}", act.txn_id, cls));
							{
								// a failed commit that had sequence numbers: remember when its
								// failure was reported (until then its conflict-map stamps are real)
								let mut m = self.model.borrow_mut();
								if let Some(c) = m.by_txn_mut(act.txn_id) {
									if c.status == Status::Failed && c.op_at_ack.is_none() {
										c.op_at_ack = Some(at_fail);
									}
								}
							}
							self.ev(format!("fail a{} txn{} {}", ai, act.txn_id, cls));
							let (start_seq, keys) = match &pend {
								Some(p) => (p.start_seq, p.writes.iter().map(|w| w.key.clone()).collect()),
								None => {
									let m = self.model.borrow();
									m.commits.iter().find(|c| c.txn == act.txn_id).map(|c| (c.start_seq, c.writes.iter().map(|w| w.key.clone()).collect())).unwrap_or((0, vec![]))
								}
							};
							let op_at_invoke = pend.as_ref().map(|p| p.op_at_invoke).unwrap_or(0);
							self.commit_failed(ai, act.txn_id, cls, &e, start_seq, keys, op_at_invoke);
							// after a failed commit the actor abandons the transaction
							drop(txn);
							act.txn = None;
							act.tm = None;
						}
					}
				}
			}
		}
	}

	/// Judgement of a failed commit (conflict soundness etc.) – filled in by history
	/// checkers; here: on fault-free runs only conflict/retry are legitimate.
	#[allow(clippy::too_many_arguments)]
	fn commit_failed(&self, ai: usize, txn: u64, cls: &str, e: &KvError, start_seq: u64, keys: Vec<Key>, op_at_invoke: usize) {
		self.failed_commits.borrow_mut().push(FailedCommit { actor: ai, txn, class: cls.to_string(), start_seq, keys, op_at_invoke });
		if self.closing.get() && cls == "PipelineStall" {
			return; // shutdown in progress: the commit was refused, which is a legitimate outcome
		}
		if !self.faults_active.get() && cls != "Conflict" && cls != "Retry" {
			self.fail("commit_error", format!("actor {} txn{} commit failed on a fault-free run: {}", ai, txn, e));
		}
	}

	// ---------- cursor programs ----------
	fn cursor_program(&self, txn: &Transaction, tm: &TxnModel, ai: usize, lo: Option<u16>, hi: Option<u16>, prog: &[CurOp]) {
		let lo_b = self.bound(lo);
		let hi_b = self.bound(hi);
		let m = self.model.borrow();
		let items = tm.view(&m, lo_b.as_deref(), hi_b.as_deref());
		// inverted or empty ranges: empty list
		let items = match (&lo_b, &hi_b) {
			(Some(l), Some(h)) if l >= h => Vec::new(),
			_ => items,
		};
		let it = match (&lo_b, &hi_b) {
			(Some(l), Some(h)) => txn.range(l.clone(), h.clone()).map(|i| Box::new(i) as Box<dyn LSMIterator + '_>),
			_ => {
				let mut ro = surrealkv::ReadOptions::new();
				ro.set_iterate_lower_bound(lo_b.clone());
				ro.set_iterate_upper_bound(hi_b.clone());
				txn.range_with_options(&ro).map(|i| Box::new(i) as Box<dyn LSMIterator + '_>)
			}
		};
		let mut it = match it {
			Ok(i) => i,
			Err(e) => {
				self.fail("read_error", format!("actor {} range({:?},{:?}) failed: {}", ai, lo_b.as_ref().map(|b| hex(b)), hi_b.as_ref().map(|b| hex(b)), e));
				return;
			}
		};
		let mut cm = CursorModel::new(items);
		let ws_in_range = tm.writes.iter().any(|w| lo_b.as_ref().map(|l| &w.key >= l).unwrap_or(true) && hi_b.as_ref().map(|h| &w.key < h).unwrap_or(true));
		let mut last_forward: Option<bool> = None;
		for (i, op) in prog.iter().enumerate() {
			self.stats.borrow_mut().cursor_ops += 1;
			// seek targets must lie inside the bounds
			if let CurOp::Seek(t) = op {
				let tk = self.key(*t);
				let inside = lo_b.as_ref().map(|l| &tk >= l).unwrap_or(true) && hi_b.as_ref().map(|h| &tk < h).unwrap_or(true);
				if !inside {
					continue;
				}
			}
			let was_off_end = cm.off_end;
			let was_positioned = cm.pos.is_some();
			let op_forward = matches!(op, CurOp::Next | CurOp::SeekFirst | CurOp::Seek(_));
			let res = apply_cur_op(it.as_mut(), &mut cm, *op, &self.plan.keys);
			let direction_change = matches!(op, CurOp::Next | CurOp::Prev) && was_positioned && last_forward.map(|f| f != op_forward).unwrap_or(false);
			if !(matches!(op, CurOp::Next | CurOp::Prev) && (was_off_end || !was_positioned)) {
				last_forward = Some(op_forward);
			}
			if let Err(d) = res {
				// explanation predicates of the two known cursor findings
				let _ = was_off_end;
				let explained = if direction_change && ws_in_range {
					Some("cursor_direction_change_over_writeset".to_string())
				} else {
					None
				};
				let mut g = self.viol.borrow_mut();
				if g.is_none() {
					*g = Some(Violation {
						class: "cursor_mismatch".into(),
						explained,
						detail: format!(
						"step {}: actor {} cursor [{:?},{:?}) op #{} {:?}: {} (live list {})",
						self.step_ix.get(),
						ai,
						lo_b.as_ref().map(|b| hex(b)),
						hi_b.as_ref().map(|b| hex(b)),
						i,
						op,
						d,
						fmt_kv(&cm.items)
					),
					});
				}
				return;
			}
		}
	}

	// ---------- history ----------
	#[allow(clippy::too_many_arguments)]
	fn history_check(
		&self,
		txn: &Transaction,
		tm: &TxnModel,
		ai: usize,
		lo: &[u8],
		hi: &[u8],
		tomb: bool,
		ts_range: Option<(u64, u64)>,
		limit: Option<u32>,
		rev: bool,
	) {
		let mut ho = HistoryOptions::new().with_tombstones(tomb);
		if let Some((a, b)) = ts_range {
			ho = ho.with_ts_range(a, b);
		}
		if let Some(l) = limit {
			ho = ho.with_limit(l as usize);
		}
		self.stats.borrow_mut().reads += 1;
		let got = (|| -> surrealkv::Result<Vec<HistEntry>> {
			let mut it = txn.history_with_options(lo.to_vec(), hi.to_vec(), &ho)?;
			let mut out = Vec::new();
			let mut ok = if rev { it.seek_last()? } else { it.seek_first()? };
			while ok && it.valid() {
				let k = it.key();
				let tombstone = k.is_tombstone();
				if std::env::var("SKV_HDBG").is_ok() {
					eprintln!("HDBG rev={} key={} seq={} ts={} tomb={} hard={} replace={}", rev, hex(k.user_key()), k.seq_num(), k.timestamp(), tombstone, k.is_hard_delete_marker(), k.is_replace());
				}
				let e = HistEntry {
					key: k.user_key().to_vec(),
					ts: k.timestamp(),
					tombstone,
					value: if tombstone { None } else { Some(it.value()?) },
				};
				out.push(e);
				ok = if rev { it.prev()? } else { it.next()? };
				if out.len() > 100_000 {
					break;
				}
			}
			Ok(out)
		})();
		let mut got = match got {
			Ok(g) => g,
			Err(e) => {
				self.fail("read_error", format!("actor {} history failed: {}", ai, e));
				return;
			}
		};
		if self.plan.params.get("history_unjudged").copied().unwrap_or(0) == 1 {
			// run for its side effects (cache contents) only
			return;
		}
		if rev {
			got.reverse();
		}
		let m = self.model.borrow();
		// expected: keys ascending, newest first; ties in timestamp compared as sets
		let mut want: Vec<HistEntry> = Vec::new();
		for k in m.all_keys() {
			if k.as_slice() < lo || k.as_slice() >= hi {
				continue;
			}
			for (ts, _ord, kind, val) in m.versions(&k, tm.horizon) {
				let tombstone = kind == Kind::SoftDelete;
				if tombstone && !tomb {
					continue;
				}
				if let Some((a, b)) = ts_range {
					if ts < a || ts > b {
						continue;
					}
				}
				want.push(HistEntry { key: k.clone(), ts, tombstone, value: val });
			}
		}
		// finite retention: versions older than the window MAY have been dropped by a compaction
		// (except the newest version of a key); versions inside it, and the newest, MUST be there,
		// and nothing else may be listed
		let retention = self.plan.opts.retention_ns;
		if retention > 0 {
			if limit.is_some() {
				return;
			}
			let now = {
				// the store's own logical clock: strictly monotonic, so it runs ahead of the
				// simulated clock by one tick per reading while simulated time stands still
				// (a compaction reads it for every version)
				let t = self.tree.borrow().as_ref().map(|t| t.verif_clock_now()).unwrap_or(0);
				if std::env::var("SKV_HDBG").is_ok() {
					eprintln!("HDBG clock store={} sim={} tree_present={}", t, ip::advance_clock(0), self.tree.borrow().is_some());
				}
				t.max(ip::advance_clock(0))
			};
			let ordered_ok = got.windows(2).all(|w| w[0].key < w[1].key || (w[0].key == w[1].key && w[0].ts >= w[1].ts));
			let mut problem: Option<String> = None;
			if !ordered_ok {
				problem = Some("not ordered keys-ascending / newest-first".into());
			}
			// F10 (known finding): an aged-out REPLACE that is not the newest version of its key is
			// dropped by compaction above the bottom level (the existing tests pin that) although
			// versions it erased survive in a deeper level: they reappear in history. Explained
			// only if every unexpected entry is a really written version of a key that has such a
			// REPLACE after it.
			let mut unexplained_extra = false;
			let mut any_extra = false;
			for (i, g) in got.iter().enumerate() {
				if !want.contains(g) {
					any_extra = true;
					let written = m.commits.iter().filter(|c| c.status != Status::Failed && c.last_seq <= tm.horizon).any(|c| {
						c.writes.iter().any(|w| w.key == g.key && w.ts.unwrap_or(c.commit_ts) == g.ts && w.kind != Kind::Delete && (w.kind == Kind::SoftDelete) == g.tombstone && (g.tombstone || w.value == g.value))
					});
					let newest_ts = m.versions(&g.key, tm.horizon).iter().map(|v| v.0).max();
					let aged_replace_after = m.commits.iter().filter(|c| c.status != Status::Failed && c.last_seq <= tm.horizon).any(|c| {
						c.writes.iter().any(|w| {
							let t = w.ts.unwrap_or(c.commit_ts);
							w.key == g.key && w.kind == Kind::Replace && t > g.ts && Some(t) != newest_ts && now.saturating_sub(t) + RETENTION_SLACK_NS > retention
						})
					});
					if !(written && aged_replace_after) {
						unexplained_extra = true;
					}
					problem = Some(format!("lists {}@{} which is not a retained version", hex(&g.key), g.ts - ip::SIM_EPOCH_NS.min(g.ts)));
				}
				if got[..i].contains(g) {
					problem = Some(format!("lists {}@{} twice", hex(&g.key), g.ts - ip::SIM_EPOCH_NS.min(g.ts)));
				}
			}
			for w in &want {
				let newest = want.iter().filter(|x| x.key == w.key).map(|x| x.ts).max() == Some(w.ts);
				// the newest version of a key in the whole history (not just in the range)
				let newest_overall = m.versions(&w.key, tm.horizon).iter().map(|v| v.0).max() == Some(w.ts);
				// (the store's logical clock is strictly monotonic: it can run a few ticks ahead of
				// the simulated clock, hence the slack at the boundary)
				let inside = now.saturating_sub(w.ts) + RETENTION_SLACK_NS <= retention;
				if (inside || (newest && newest_overall)) && !got.contains(w) {
					problem = Some(format!("misses {}@{} which is {} (now {}, retention {})", hex(&w.key), w.ts - ip::SIM_EPOCH_NS.min(w.ts), if inside { "inside the retention window" } else { "the newest version of its key" }, now - ip::SIM_EPOCH_NS.min(now), retention));
				}
			}
			let mut missing_or_dup = false;
			if let Some(p) = &problem {
				missing_or_dup = !p.starts_with("lists ") || p.ends_with(" twice");
			}
			if let Some(p) = problem {
				let explained = if any_extra && !unexplained_extra && !missing_or_dup && ordered_ok { Some("aged_out_replace_dropped_above_bottom".to_string()) } else { None };
				let detail = format!("step {}: actor {} history [{}, {}) tomb={} ts_range={:?} rev={} at horizon {} (finite retention): {}", self.step_ix.get(), ai, hex(lo), hex(hi), tomb, ts_range, rev, tm.horizon, p);
				let mut g = self.viol.borrow_mut();
				if g.is_none() {
					*g = Some(Violation { class: "history_mismatch".into(), detail, explained });
				}
			}
			return;
		}
		let limited = limit.is_some();
		let want_full = want.clone();
		if let Some(l) = limit {
			// a limit bounds the number of entries; which end is kept on backward
			// traversal is not pinned down by the property: only judge forward
			if rev {
				return;
			}
			want.truncate(l as usize);
		}
		// normalise ties: sort runs of equal (key, ts) by value
		let norm = |v: &mut Vec<HistEntry>| {
			v.sort_by(|a, b| a.key.cmp(&b.key).then(b.ts.cmp(&a.ts)).then(a.tombstone.cmp(&b.tombstone)).then(a.value.cmp(&b.value)));
		};
		let ordered_ok = got.windows(2).all(|w| w[0].key < w[1].key || (w[0].key == w[1].key && w[0].ts >= w[1].ts));
		if !ordered_ok {
			self.fail("history_order", format!("actor {} history not ordered keys-ascending/newest-first: {:?}", ai, got.iter().map(|e| (hex(&e.key), e.ts)).collect::<Vec<_>>()));
			return;
		}
		let (mut g2, mut w2) = (got.clone(), want.clone());
		if !limited {
			norm(&mut g2);
			norm(&mut w2);
		}
		if g2 != w2 {
			// ---- explanation predicates of the known history findings ----
			let mut explained: Option<String> = None;
			if rev {
				// F7: backward traversal of the history iterator
				explained = Some("history_backward_traversal".into());
			}
			if explained.is_none() {
				// F9: the same version listed twice because its batch was applied twice
				// (rotation straddle): removing exact duplicates of straddled commits' values
				// makes the answer right
				let mut dedup: Vec<HistEntry> = Vec::new();
				let mut dup_vals: Vec<Option<Val>> = Vec::new();
				for e in &got {
					if dedup.last() == Some(e) {
						dup_vals.push(e.value.clone());
					} else {
						dedup.push(e.clone());
					}
				}
				if !dup_vals.is_empty() {
					let mut d2 = dedup.clone();
					if let Some(l) = limit {
						let _ = l;
					}
					if !limited {
						norm(&mut d2);
					}
					let straddled_vals: Vec<Option<Val>> = m.commits.iter().filter(|c| c.straddled()).flat_map(|c| c.writes.iter().map(|w| w.value.clone())).collect();
					if (d2 == w2 || limited) && dup_vals.iter().all(|v| straddled_vals.contains(v)) {
						explained = Some("rotation_straddle".into());
					}
				}
			}
			if explained.is_none() {
				// F8: versions erased by a later hard delete / replace are still listed
				// (nothing is missing, and every extra entry is such an erased version)
				let mut all_versions: Vec<HistEntry> = Vec::new();
				for c in m.commits.iter().filter(|c| c.status != Status::Failed && c.last_seq <= tm.horizon) {
					for w in &c.writes {
						if w.key.as_slice() < lo || w.key.as_slice() >= hi {
							continue;
						}
						let ts = w.ts.unwrap_or(c.commit_ts);
						match w.kind {
							Kind::Delete => {}
							Kind::SoftDelete => all_versions.push(HistEntry { key: w.key.clone(), ts, tombstone: true, value: None }),
							_ => all_versions.push(HistEntry { key: w.key.clone(), ts, tombstone: false, value: w.value.clone() }),
						}
					}
				}
				let missing = want.iter().any(|w| !got.contains(w));
				let extras: Vec<&HistEntry> = got.iter().filter(|g| !want.contains(g)).collect();
				if !limited && !missing && !extras.is_empty() && extras.iter().all(|e| all_versions.contains(e)) {
					explained = Some("history_barrier_not_applied".into());
				}
				// with a limit "nothing missing" cannot be judged; every listed entry must still be
				// a version that was really written, and at least one of them an erased one
				if limited && !got.is_empty() && got.iter().all(|e| all_versions.contains(e)) && got.iter().any(|e| !want_full.contains(e)) {
					explained = Some("history_barrier_not_applied".into());
				}
				// with a timestamp range the barrier logic misfires both ways for keys that have a
				// hard delete or a replace: only such keys may differ
				if explained.is_none() && ts_range.is_some() {
					let barrier_keys: Vec<&Key> = m
						.commits
						.iter()
						.filter(|c| c.status != Status::Failed && c.last_seq <= tm.horizon)
						.flat_map(|c| c.writes.iter())
						.filter(|w| matches!(w.kind, Kind::Delete | Kind::Replace))
						.map(|w| &w.key)
						.collect();
					let diff_keys: Vec<&Key> = got.iter().filter(|g| !want_full.contains(g)).chain(want.iter().filter(|w| !got.contains(w))).map(|e| &e.key).collect();
					if !diff_keys.is_empty() && diff_keys.iter().all(|k| barrier_keys.contains(k)) && got.iter().all(|e| all_versions.contains(e)) {
						explained = Some("history_barrier_not_applied".into());
					}
				}
			}
			if explained.is_none() && self.stats.borrow().reopens > 0 && !limited {
				// F1: after a reopen the versions written by a rotation-straddling commit are gone
				let straddled_vals: Vec<Option<Val>> = m.commits.iter().filter(|c| c.straddled()).flat_map(|c| c.writes.iter().map(|w| w.value.clone())).collect();
				let extras = got.iter().any(|g| !want.contains(g));
				let missing: Vec<&HistEntry> = want.iter().filter(|w| !got.contains(w)).collect();
				if !extras && !missing.is_empty() && missing.iter().all(|e| straddled_vals.contains(&e.value)) {
					explained = Some("rotation_straddle".into());
				}
			}
			let f = |v: &Vec<HistEntry>| {
				v.iter()
					.map(|e| format!("{}@{}{}", hex(&e.key), e.ts, if e.tombstone { "(tomb)".to_string() } else { format!("={}", hex(&e.value.clone().unwrap_or_default()[..e.value.as_ref().map(|v| v.len().min(10)).unwrap_or(0)])) }))
					.collect::<Vec<_>>()
					.join(", ")
			};
			let detail = format!(
				"step {}: actor {} history [{}, {}) tomb={} ts_range={:?} limit={:?} rev={} at horizon {} returned [{}] but model says [{}]{}",
				self.step_ix.get(),
				ai,
				hex(lo),
				hex(hi),
				tomb,
				ts_range,
				limit,
				rev,
				tm.horizon,
				f(&got),
				f(&want),
				explained.as_ref().map(|e| format!(" [explained by known finding {}]", e)).unwrap_or_default()
			);
			let mut g = self.viol.borrow_mut();
			if g.is_none() {
				*g = Some(Violation { class: "history_mismatch".into(), detail, explained });
			}
		}
	}

	pub fn take_outcome(&self, session: Option<ip::Session>) -> Outcome {
		let (ops, fired) = match session {
			Some(s) => (s.ops, s.fired),
			None => (vec![], vec![]),
		};
		Outcome {
			failed_commits: self.failed_commits.borrow().clone(),
			violation: self.viol.borrow().clone(),
			stats: self.stats.borrow().clone(),
			ops,
			events: self.events.borrow().clone(),
			model: self.model.borrow().clone(),
			fired,
			selfcheck: Ok(()),
		}
	}


}

fn hash_label(l: &str) -> u64 {
	let mut h: u64 = 0xcbf29ce484222325;
	for b in l.bytes() {
		h ^= b as u64;
		h = h.wrapping_mul(0x100000001b3);
	}
	h
}

/// Complete traversal of [lo, hi) through a fresh cursor.
pub fn scan(txn: &Transaction, lo: &[u8], hi: &[u8], rev: bool) -> surrealkv::Result<Vec<(Key, Val)>> {
	let mut it = txn.range(lo.to_vec(), hi.to_vec())?;
	let mut out = Vec::new();
	let mut ok = if rev { it.seek_last()? } else { it.seek_first()? };
	while ok && it.valid() {
		out.push((it.key().user_key().to_vec(), it.value()?));
		ok = if rev { it.prev()? } else { it.next()? };
		if out.len() > 1_000_000 {
			break;
		}
	}
	Ok(out)
}

/// Apply one cursor operation to the real iterator and the model; compare.
pub fn apply_cur_op(it: &mut dyn LSMIterator, cm: &mut CursorModel, op: CurOp, keys: &[Vec<u8>]) -> Result<(), String> {
	// after running off an end only seeks are defined
	if cm.off_end && matches!(op, CurOp::Next | CurOp::Prev) {
		return Ok(());
	}
	// next/prev on a never-positioned cursor are not defined by the property either
	if cm.pos.is_none() && !cm.off_end && matches!(op, CurOp::Next | CurOp::Prev) {
		return Ok(());
	}
	let r = match op {
		CurOp::SeekFirst => {
			cm.seek_first();
			it.seek_first()
		}
		CurOp::SeekLast => {
			cm.seek_last();
			it.seek_last()
		}
		CurOp::Next => {
			cm.next();
			it.next()
		}
		CurOp::Prev => {
			cm.prev();
			it.prev()
		}
		CurOp::Seek(t) => {
			let k = keys.get(t as usize).cloned().unwrap_or_default();
			cm.seek(&k);
			it.seek(&k)
		}
	};
	let ret = match r {
		Ok(b) => b,
		Err(e) => return Err(format!("returned error {}", e)),
	};
	let want = cm.current().cloned();
	let valid = it.valid();
	if ret != valid {
		return Err(format!("call returned {} but valid() is {}", ret, valid));
	}
	match (want, valid) {
		(None, false) => Ok(()),
		(Some((k, _)), false) => Err(format!("cursor invalid, model is at {}", hex(&k))),
		(None, true) => Err(format!("cursor at {} but model has run off / list empty", hex(it.key().user_key()))),
		(Some((k, v)), true) => {
			let gk = it.key().user_key().to_vec();
			if gk != k {
				return Err(format!("cursor at {}, model at {}", hex(&gk), hex(&k)));
			}
			match it.value() {
				Ok(gv) => {
					if gv != v {
						Err(format!("value at {} is {}, model says {}", hex(&k), hex(&gv[..gv.len().min(16)]), hex(&v[..v.len().min(16)])))
					} else {
						Ok(())
					}
				}
				Err(e) => Err(format!("value() failed at {}: {}", hex(&k), e)),
			}
		}
	}
}
