//! skvsim — deterministic simulation with fault injection for surrealkv.

mod case;
mod checks;
mod disk;
mod exec;
mod findings;
mod framework;
mod gen;
mod interpose;
mod model;
mod plan;
mod recovery;
mod rng;

use framework::Tier;

struct StderrLog;
impl log::Log for StderrLog {
	fn enabled(&self, _: &log::Metadata) -> bool {
		true
	}
	fn log(&self, r: &log::Record) {
		eprintln!("[{}] {}", r.level(), r.args());
	}
	fn flush(&self) {}
}
static LOGGER: StderrLog = StderrLog;

fn usage() -> ! {
	eprintln!("usage: skvsim check <ID> [quick|thorough] | worker ... | replay <file> | list | show <ID> <case> [tier]");
	std::process::exit(2)
}

fn tier_of(s: Option<&String>) -> Tier {
	match s.map(|s| s.as_str()) {
		Some("thorough") => Tier::Thorough,
		_ => match std::env::var("VERIF_TIER").ok().as_deref() {
			Some("thorough") if s.is_none() => Tier::Thorough,
			_ => Tier::Quick,
		},
	}
}

fn main() {
	let args: Vec<String> = std::env::args().collect();
	if args.len() < 2 {
		usage();
	}
	if let Ok(l) = std::env::var("SKV_LOG") {
		let _ = log::set_logger(&LOGGER);
		log::set_max_level(match l.as_str() {
			"debug" => log::LevelFilter::Debug,
			"trace" => log::LevelFilter::Trace,
			"warn" => log::LevelFilter::Warn,
			_ => log::LevelFilter::Info,
		});
	}
	match args[1].as_str() {
		"list" => {
			for c in checks::all() {
				println!("{} {}", c.id, c.level);
			}
		}
		"check" => {
			let id = args.get(2).unwrap_or_else(|| usage());
			let def = checks::find(id).unwrap_or_else(|| {
				eprintln!("unknown check {}", id);
				std::process::exit(2)
			});
			let tier = tier_of(args.get(3));
			std::process::exit(framework::run_check(&def, tier));
		}
		"worker" => {
			// worker <id> <tier> <seed> <from> <to> <stride> <out>
			if args.len() < 9 {
				usage();
			}
			let def = checks::find(&args[2]).unwrap_or_else(|| usage());
			let tier = tier_of(args.get(3));
			let seed: u64 = args[4].parse().unwrap();
			let from: u64 = args[5].parse().unwrap();
			let to: u64 = args[6].parse().unwrap();
			let stride: u64 = args[7].parse().unwrap();
			case::install_panic_hook();
			case::warmup();
			framework::worker(&def, tier, seed, from, to, stride, std::path::Path::new(&args[8]));
		}
		"replay" => {
			let path = args.get(2).unwrap_or_else(|| usage());
			match framework::load_replay(path) {
				Ok((id, plan, v)) => {
					let def = checks::find(&id).unwrap_or_else(|| {
						eprintln!("unknown check {}", id);
						std::process::exit(2)
					});
					case::install_panic_hook();
					case::warmup();
					std::process::exit(framework::replay(&def, &plan, v));
				}
				Err(e) => {
					eprintln!("cannot load replay file: {}", e);
					std::process::exit(2);
				}
			}
		}
		"digests" => {
			// digests <check> <tier> <from> <to> <reverse 0|1>: one "case digest" line per case
			let def = checks::find(args.get(2).unwrap_or_else(|| usage())).unwrap_or_else(|| usage());
			let tier = tier_of(args.get(3));
			let from: u64 = args.get(4).and_then(|s| s.parse().ok()).unwrap_or(0);
			let to: u64 = args.get(5).and_then(|s| s.parse().ok()).unwrap_or(10);
			let rev = args.get(6).map(|s| s == "1").unwrap_or(false);
			case::install_panic_hook();
			case::warmup();
			let seed = framework::verif_seed();
			let mut cases: Vec<u64> = (from..to).collect();
			if rev {
				cases.reverse();
			}
			for c in cases {
				let cs = rng::derive(seed, def.id, c);
				let plan = (def.gen)(cs, c, tier);
				let j = (def.judge)(&plan, tier);
				println!("{} {:016x}", c, framework::fingerprint(&j));
			}
			case::cleanup_scratch();
		}
		"selftest" => {
			// determinism: every case must produce the same fingerprint in two separate
			// processes that run the cases in opposite orders
			let n: u64 = args.get(2).and_then(|s| s.parse().ok()).unwrap_or(40);
			let exe = std::env::current_exe().unwrap();
			let mut bad = 0;
			let mut total = 0;
			for def in checks::all() {
				let run = |rev: &str| -> std::collections::BTreeMap<u64, String> {
					let o = std::process::Command::new(&exe).args(["digests", def.id, "quick", "0", &n.to_string(), rev]).output().expect("spawn");
					String::from_utf8_lossy(&o.stdout)
						.lines()
						.filter_map(|l| {
							let mut it = l.split_whitespace();
							Some((it.next()?.parse().ok()?, it.next()?.to_string()))
						})
						.collect()
				};
				let a = run("0");
				let b = run("1");
				let mut diff = 0;
				for (k, v) in &a {
					total += 1;
					if b.get(k) != Some(v) {
						diff += 1;
						eprintln!("NONDETERMINISM {} case {}: {} vs {:?}", def.id, k, v, b.get(k));
					}
				}
				if a.len() as u64 != n || b.len() as u64 != n {
					eprintln!("selftest {}: expected {} digests, got {} / {}", def.id, n, a.len(), b.len());
					diff += 1;
				}
				println!("selftest determinism {}: {} cases x 2 processes (opposite orders), {} differences", def.id, a.len(), diff);
				bad += diff;
			}
			println!("selftest determinism: {} case executions compared, {} differences", total, bad);
			std::process::exit(if bad == 0 { 0 } else { 2 });
		}
		"lock-child" => {
			let dir = args.get(2).unwrap_or_else(|| usage());
			std::process::exit(checks::lock::lock_child(dir));
		}
		"replayn" => {
			// judge a replay file several times in one process (determinism debugging)
			let path = args.get(2).unwrap_or_else(|| usage());
			let n: u32 = args.get(3).and_then(|s| s.parse().ok()).unwrap_or(3);
			let (id, plan, _) = framework::load_replay(path).unwrap();
			let def = checks::find(&id).unwrap();
			case::install_panic_hook();
			case::warmup();
			for i in 0..n {
				let j = (def.judge)(&plan, Tier::Quick);
				println!("run {}: {:?} sig={:x} evals={}", i, j.violation.map(|v| (v.class, v.detail.chars().take(160).collect::<String>())), j.sig, j.evaluations);
			}
			case::cleanup_scratch();
		}
		"show" => {
			// print the generated plan of one case and judge it verbosely
			let id = args.get(2).unwrap_or_else(|| usage());
			let case: u64 = args.get(3).and_then(|s| s.parse().ok()).unwrap_or(0);
			let tier = tier_of(args.get(4));
			let def = checks::find(id).unwrap_or_else(|| usage());
			case::install_panic_hook();
			case::warmup();
			let seed = framework::verif_seed();
			let cs = rng::derive(seed, def.id, case);
			let plan = (def.gen)(cs, case, tier);
			if std::env::var("SHOW_PLAN").is_ok() {
				println!("{}", serde_json::to_string_pretty(&plan).unwrap());
			}
			let j = (def.judge)(&plan, tier);
			println!("violation: {:?}", j.violation);
			println!("nontrivial={} evaluations={} sig={:x}", j.nontrivial, j.evaluations, j.sig);
			println!("counters: {}", serde_json::to_string_pretty(&j.counters).unwrap());
			case::cleanup_scratch();
		}
		_ => usage(),
	}
}
