//! libc-level seams: disk (op log + fault injection), clock, randomness, pid.
//!
//! The harness binary itself defines the libc entry points std uses, so the real
//! `std::fs` code inside surrealkv calls these; the real functions are reached through
//! `dlsym(RTLD_NEXT, ..)`. Only paths under the current session root are simulated.

#![allow(clippy::missing_safety_doc)]

use libc::{c_char, c_int, c_long, c_uint, c_void, mode_t, off_t, size_t, ssize_t};
use std::collections::HashMap;
use std::ffi::CStr;
use std::sync::atomic::{AtomicBool, AtomicU64, Ordering};
use std::sync::Mutex;

use crate::disk::{FaultAction, FaultKind, FaultSpec, Op};

pub const SIM_EPOCH_NS: u64 = 1_900_000_000_000_000_000;

static DISK_ON: AtomicBool = AtomicBool::new(false);
static CLOCK_ON: AtomicBool = AtomicBool::new(false);
static RAND_ON: AtomicBool = AtomicBool::new(false);
static NOW_NS: AtomicU64 = AtomicU64::new(SIM_EPOCH_NS);
static RAND_KEY: AtomicU64 = AtomicU64::new(0);
static RAND_CTR: AtomicU64 = AtomicU64::new(0);
/// Ticks added to the clock on every clock read (keeps timestamps strictly increasing
/// without anyone else moving time).
static CLOCK_TICK: AtomicU64 = AtomicU64::new(0);

pub struct Session {
	pub root: String, // absolute, no trailing slash
	pub ops: Vec<Op>,
	pub ino_path: HashMap<u64, String>, // ino -> rel path at open time (informational)
	pub faults: Vec<FaultSpec>,
	pub fault_counters: HashMap<(FaultKind, String), u32>,
	pub mutating_calls: u64,
	pub fired: Vec<(usize, FaultKind, String, FaultAction)>, // (op index, kind, class, action)
	pub frozen: bool,
	pub pending_short: Option<u64>, // ino with a short write done: next write on it fails EIO
}

static SESSION: Mutex<Option<Session>> = Mutex::new(None);

// ---------- real functions ----------
macro_rules! real {
	($name:ident : fn($($arg:ty),*) -> $ret:ty) => {{
		static PTR: AtomicU64 = AtomicU64::new(0);
		let mut p = PTR.load(Ordering::Relaxed);
		if p == 0 {
			p = libc::dlsym(libc::RTLD_NEXT, concat!(stringify!($name), "\0").as_ptr() as *const c_char) as u64;
			if p == 0 { libc::abort(); }
			PTR.store(p, Ordering::Relaxed);
		}
		std::mem::transmute::<u64, unsafe extern "C" fn($($arg),*) -> $ret>(p)
	}};
}

fn set_errno(e: c_int) {
	unsafe { *libc::__errno_location() = e };
}

// ---------- session control ----------
pub fn begin_session(root: &str, faults: Vec<FaultSpec>) {
	let mut g = SESSION.lock().unwrap();
	*g = Some(Session {
		root: root.trim_end_matches('/').to_string(),
		ops: Vec::new(),
		ino_path: HashMap::new(),
		faults,
		fault_counters: HashMap::new(),
		mutating_calls: 0,
		fired: Vec::new(),
		frozen: false,
		pending_short: None,
	});
	DISK_ON.store(true, Ordering::SeqCst);
}

pub fn end_session() -> Option<Session> {
	DISK_ON.store(false, Ordering::SeqCst);
	SESSION.lock().unwrap().take()
}

pub fn op_count() -> usize {
	SESSION.lock().unwrap().as_ref().map(|s| s.ops.len()).unwrap_or(0)
}

/// Path (relative to the session root) last known for an inode.
pub fn path_of_ino(ino: u64) -> Option<String> {
	SESSION.lock().unwrap().as_ref().and_then(|s| s.ino_path.get(&ino).cloned())
}

/// Copy of the ops logged since position `from`.
pub fn ops_since(from: usize) -> Vec<Op> {
	SESSION.lock().unwrap().as_ref().map(|s| s.ops[from.min(s.ops.len())..].to_vec()).unwrap_or_default()
}

pub fn marker(text: String) -> usize {
	let mut g = SESSION.lock().unwrap();
	if let Some(s) = g.as_mut() {
		if !s.frozen {
			s.ops.push(Op::Marker { text });
		}
		s.ops.len()
	} else {
		0
	}
}

pub fn freeze() {
	if let Some(s) = SESSION.lock().unwrap().as_mut() {
		s.frozen = true;
	}
}

/// Install faults in the middle of a session. `Class { nth }` counts from now on (the n-th
/// call of that kind on that class after this point), `Call(n)` stays absolute.
pub fn set_faults(mut faults: Vec<FaultSpec>) {
	if let Some(s) = SESSION.lock().unwrap().as_mut() {
		for f in faults.iter_mut() {
			if let crate::disk::FaultAt::Class { kind, class, nth } = &mut f.at {
				let seen = s.fault_counters.get(&(*kind, class.clone())).copied().unwrap_or(0);
				*nth += seen as u32;
			}
		}
		s.faults = faults;
	}
}

pub fn clear_faults() {
	if let Some(s) = SESSION.lock().unwrap().as_mut() {
		s.faults.clear();
		s.pending_short = None;
	}
}

pub fn fired_count() -> usize {
	SESSION.lock().unwrap().as_ref().map(|s| s.fired.len()).unwrap_or(0)
}

pub fn enable_clock(on: bool) {
	CLOCK_ON.store(on, Ordering::SeqCst);
}
pub fn set_clock_tick(t: u64) {
	CLOCK_TICK.store(t, Ordering::SeqCst);
}
pub fn set_now(ns: u64) {
	NOW_NS.store(ns, Ordering::SeqCst);
}
pub fn now() -> u64 {
	NOW_NS.load(Ordering::SeqCst)
}
pub fn advance_clock(ns: u64) -> u64 {
	NOW_NS.fetch_add(ns, Ordering::SeqCst) + ns
}
pub fn enable_rand(on: bool, key: u64) {
	RAND_KEY.store(key, Ordering::SeqCst);
	RAND_CTR.store(0, Ordering::SeqCst);
	RAND_ON.store(on, Ordering::SeqCst);
}

/// Real wall clock for the harness' own budgeting (never influences a run).
pub fn real_monotonic_ns() -> u64 {
	let mut ts = libc::timespec { tv_sec: 0, tv_nsec: 0 };
	unsafe { libc::syscall(libc::SYS_clock_gettime, libc::CLOCK_MONOTONIC, &mut ts as *mut libc::timespec) };
	ts.tv_sec as u64 * 1_000_000_000 + ts.tv_nsec as u64
}

// ---------- helpers ----------
unsafe fn cstr(p: *const c_char) -> Option<String> {
	if p.is_null() {
		return None;
	}
	CStr::from_ptr(p).to_str().ok().map(|s| s.to_string())
}

/// Relative path under the session root, if `path` is inside it.
fn rel(s: &Session, path: &str) -> Option<String> {
	let p = path.trim_end_matches('/');
	if p == s.root {
		return Some(String::new());
	}
	if p.len() > s.root.len() && p.starts_with(&s.root) && p.as_bytes()[s.root.len()] == b'/' {
		let r = &p[s.root.len() + 1..];
		// normalise "a//b" and "./"
		let parts: Vec<&str> = r.split('/').filter(|c| !c.is_empty() && *c != ".").collect();
		return Some(parts.join("/"));
	}
	None
}

pub fn path_class(rel: &str) -> String {
	let base = rel.rsplit('/').next().unwrap_or(rel);
	if rel.starts_with("wal/repair_temp") || base.ends_with(".repair") {
		return "wal_repair".into();
	}
	if base.ends_with(".wal") {
		return "wal".into();
	}
	if base.ends_with(".sst") {
		return "sst".into();
	}
	if base.ends_with(".vlog") {
		return "vlog".into();
	}
	if base.ends_with(".manifest") || rel.starts_with("manifest") {
		return "manifest".into();
	}
	if base.ends_with(".bpt") || rel.starts_with("versioned_index") {
		return "index".into();
	}
	if base == "LOCK" {
		return "lock".into();
	}
	"other".into()
}

unsafe fn fd_info(fd: c_int) -> Option<(u64, bool, u64)> {
	// (ino, is_regular, size)
	let mut st: libc::stat64 = std::mem::zeroed();
	let f = real!(fstat64: fn(c_int, *mut libc::stat64) -> c_int);
	if f(fd, &mut st) != 0 {
		return None;
	}
	Some((st.st_ino, (st.st_mode & libc::S_IFMT) == libc::S_IFREG, st.st_size as u64))
}

unsafe fn fd_path(fd: c_int) -> Option<String> {
	let link = format!("/proc/self/fd/{}\0", fd);
	let mut buf = [0u8; 4096];
	let f = real!(readlink: fn(*const c_char, *mut c_char, size_t) -> ssize_t);
	let n = f(link.as_ptr() as *const c_char, buf.as_mut_ptr() as *mut c_char, buf.len());
	if n <= 0 {
		return None;
	}
	std::str::from_utf8(&buf[..n as usize]).ok().map(|s| s.to_string())
}

/// Decide whether a fault fires for this call. Returns the action.
fn check_fault(s: &mut Session, kind: FaultKind, class: &str) -> Option<FaultAction> {
	s.mutating_calls += 1;
	let call_index = s.mutating_calls;
	let key = (kind, class.to_string());
	let c = s.fault_counters.entry(key).or_insert(0);
	*c += 1;
	let nth_class = *c;
	let mut hit: Option<FaultAction> = None;
	for f in s.faults.iter_mut() {
		if f.spent {
			continue;
		}
		let m = match &f.at {
			crate::disk::FaultAt::Call(n) => {
				if f.persistent {
					call_index >= *n
				} else {
					call_index == *n
				}
			}
			crate::disk::FaultAt::Class { kind: k, class: cl, nth } => {
				*k == kind && cl == class && if f.persistent { nth_class >= *nth } else { nth_class == *nth }
			}
		};
		if m && f.applies_to(kind) {
			if !f.persistent {
				f.spent = true;
			}
			hit = Some(f.action_for(kind));
			break;
		}
	}
	if let Some(a) = hit {
		let idx = s.ops.len();
		if s.fired.len() < 4096 {
			s.fired.push((idx, kind, class.to_string(), a));
		}
	}
	hit
}

fn errno_of(a: FaultAction) -> c_int {
	match a {
		FaultAction::Eio => libc::EIO,
		FaultAction::Enospc => libc::ENOSPC,
		FaultAction::Eintr => libc::EINTR,
		FaultAction::Emfile => libc::EMFILE,
		FaultAction::Short(_) => libc::EIO,
	}
}

// ---------- interposed: open family ----------
unsafe fn do_open(path: *const c_char, flags: c_int, mode: mode_t, dirfd: Option<c_int>) -> c_int {
	let real_open = real!(open64: fn(*const c_char, c_int, mode_t) -> c_int);
	let real_openat = real!(openat64: fn(c_int, *const c_char, c_int, mode_t) -> c_int);
	let call = |p: *const c_char| -> c_int {
		match dirfd {
			Some(d) => real_openat(d, p, flags, mode),
			None => real_open(p, flags, mode),
		}
	};
	if !DISK_ON.load(Ordering::Relaxed) {
		return call(path);
	}
	let spath = match cstr(path) {
		Some(s) => s,
		None => return call(path),
	};
	let abs = if spath.starts_with('/') {
		spath.clone()
	} else if let Some(d) = dirfd {
		if d == libc::AT_FDCWD {
			spath.clone()
		} else {
			match fd_path(d) {
				Some(dp) => format!("{}/{}", dp, spath),
				None => spath.clone(),
			}
		}
	} else {
		spath.clone()
	};
	let mut g = SESSION.lock().unwrap();
	let s = match g.as_mut() {
		Some(s) => s,
		None => {
			drop(g);
			return call(path);
		}
	};
	let r = match rel(s, &abs) {
		Some(r) => r,
		None => {
			drop(g);
			return call(path);
		}
	};
	let writable = (flags & libc::O_ACCMODE) != libc::O_RDONLY;
	let creating = (flags & libc::O_CREAT) != 0;
	if !writable && !creating {
		drop(g);
		return call(path);
	}
	if s.frozen {
		set_errno(libc::EIO);
		return -1;
	}
	// existence before
	let mut st: libc::stat64 = std::mem::zeroed();
	let cabs = std::ffi::CString::new(abs.clone()).unwrap();
	let real_stat = real!(stat64: fn(*const c_char, *mut libc::stat64) -> c_int);
	let existed = real_stat(cabs.as_ptr(), &mut st) == 0;
	let old_size = if existed { st.st_size as u64 } else { 0 };
	let will_create = creating && !existed;
	let will_trunc = (flags & libc::O_TRUNC) != 0 && existed && old_size > 0;
	let class = path_class(&r);
	if will_create {
		if let Some(a) = check_fault(s, FaultKind::Create, &class) {
			set_errno(errno_of(a));
			return -1;
		}
	} else if will_trunc {
		if let Some(a) = check_fault(s, FaultKind::Truncate, &class) {
			set_errno(errno_of(a));
			return -1;
		}
	}
	let fd = call(path);
	if fd < 0 {
		return fd;
	}
	if let Some((ino, reg, _)) = fd_info(fd) {
		if reg {
			s.ino_path.insert(ino, r.clone());
			if will_create {
				s.ops.push(Op::Create { path: r.clone(), ino });
			} else if will_trunc {
				s.ops.push(Op::Truncate { ino, len: 0 });
			}
		}
	}
	fd
}

#[no_mangle]
pub unsafe extern "C" fn open64(path: *const c_char, flags: c_int, mode: mode_t) -> c_int {
	do_open(path, flags, mode, None)
}
#[no_mangle]
pub unsafe extern "C" fn open(path: *const c_char, flags: c_int, mode: mode_t) -> c_int {
	do_open(path, flags, mode, None)
}
#[no_mangle]
pub unsafe extern "C" fn openat64(dirfd: c_int, path: *const c_char, flags: c_int, mode: mode_t) -> c_int {
	do_open(path, flags, mode, Some(dirfd))
}
#[no_mangle]
pub unsafe extern "C" fn openat(dirfd: c_int, path: *const c_char, flags: c_int, mode: mode_t) -> c_int {
	do_open(path, flags, mode, Some(dirfd))
}

// ---------- interposed: write family ----------
unsafe fn simulated_fd(fd: c_int) -> Option<(u64, u64)> {
	// returns (ino, size) if fd is a regular file inside the session
	if fd <= 2 || !DISK_ON.load(Ordering::Relaxed) {
		return None;
	}
	let (ino, reg, size) = fd_info(fd)?;
	if !reg {
		return None;
	}
	let g = SESSION.lock().unwrap();
	let s = g.as_ref()?;
	if s.ino_path.contains_key(&ino) {
		Some((ino, size))
	} else {
		None
	}
}

thread_local! {
	/// Harness code to run right after a successful simulated write (an I/O-level yield
	/// point: the caller is in the middle of whatever multi-write operation it performs).
	static IO_HOOK: std::cell::RefCell<Option<Box<dyn FnMut(&str)>>> = const { std::cell::RefCell::new(None) };
	static IN_IO_HOOK: std::cell::Cell<bool> = const { std::cell::Cell::new(false) };
}

/// Install (or remove) the write hook of this thread. The hook receives the path class of
/// the file written to. It is not re-entered by writes it performs itself.
pub fn set_io_hook(h: Option<Box<dyn FnMut(&str)>>) {
	IO_HOOK.with(|c| *c.borrow_mut() = h);
}

fn run_io_hook(class: &str) {
	if IN_IO_HOOK.with(|c| c.get()) {
		return;
	}
	let h = IO_HOOK.with(|c| c.borrow_mut().take());
	if let Some(mut h) = h {
		IN_IO_HOOK.with(|c| c.set(true));
		h(class);
		IN_IO_HOOK.with(|c| c.set(false));
		IO_HOOK.with(|c| {
			let mut g = c.borrow_mut();
			if g.is_none() {
				*g = Some(h);
			}
		});
	}
}

unsafe fn do_write(fd: c_int, buf: *const c_void, count: size_t, at: Option<off_t>) -> ssize_t {
	let real_write = real!(write: fn(c_int, *const c_void, size_t) -> ssize_t);
	let real_pwrite = real!(pwrite64: fn(c_int, *const c_void, size_t, off_t) -> ssize_t);
	let (ino, size) = match simulated_fd(fd) {
		Some(x) => x,
		None => {
			return match at {
				Some(o) => real_pwrite(fd, buf, count, o),
				None => real_write(fd, buf, count),
			}
		}
	};
	let mut g = SESSION.lock().unwrap();
	let s = g.as_mut().unwrap();
	if s.frozen {
		set_errno(libc::EIO);
		return -1;
	}
	let class = s.ino_path.get(&ino).map(|p| path_class(p)).unwrap_or_default();
	let mut count = count;
	if s.pending_short == Some(ino) {
		// the write following a short write fails: torn write with an error
		s.pending_short = None;
		s.mutating_calls += 1;
		set_errno(libc::EIO);
		return -1;
	}
	let mut short = false;
	if let Some(a) = check_fault(s, FaultKind::Write, &class) {
		match a {
			FaultAction::Short(k) => {
				let k = (k as usize).min(count.saturating_sub(1)).max(1);
				if count > 1 {
					count = k;
					short = true;
				} else {
					set_errno(libc::EIO);
					return -1;
				}
			}
			other => {
				set_errno(errno_of(other));
				return -1;
			}
		}
	}
	let off = match at {
		Some(o) => o as u64,
		None => {
			let fl = libc::fcntl(fd, libc::F_GETFL);
			if fl >= 0 && (fl & libc::O_APPEND) != 0 {
				size
			} else {
				let lseek = real!(lseek64: fn(c_int, off_t, c_int) -> off_t);
				lseek(fd, 0, libc::SEEK_CUR) as u64
			}
		}
	};
	let n = match at {
		Some(o) => real_pwrite(fd, buf, count, o),
		None => real_write(fd, buf, count),
	};
	if n > 0 {
		let data = std::slice::from_raw_parts(buf as *const u8, n as usize).to_vec();
		s.ops.push(Op::Write { ino, off, data });
		if short {
			s.pending_short = Some(ino);
		}
	}
	drop(g);
	if n > 0 {
		run_io_hook(&class);
	}
	n
}

#[no_mangle]
pub unsafe extern "C" fn write(fd: c_int, buf: *const c_void, count: size_t) -> ssize_t {
	do_write(fd, buf, count, None)
}
#[no_mangle]
pub unsafe extern "C" fn pwrite64(fd: c_int, buf: *const c_void, count: size_t, off: off_t) -> ssize_t {
	do_write(fd, buf, count, Some(off))
}
#[no_mangle]
pub unsafe extern "C" fn pwrite(fd: c_int, buf: *const c_void, count: size_t, off: off_t) -> ssize_t {
	do_write(fd, buf, count, Some(off))
}
#[no_mangle]
pub unsafe extern "C" fn writev(fd: c_int, iov: *const libc::iovec, iovcnt: c_int) -> ssize_t {
	if simulated_fd(fd).is_none() {
		let f = real!(writev: fn(c_int, *const libc::iovec, c_int) -> ssize_t);
		return f(fd, iov, iovcnt);
	}
	// write the first non-empty buffer only (legal short write)
	for i in 0..iovcnt as isize {
		let v = &*iov.offset(i);
		if v.iov_len > 0 {
			return do_write(fd, v.iov_base, v.iov_len, None);
		}
	}
	0
}

#[no_mangle]
pub unsafe extern "C" fn ftruncate64(fd: c_int, len: off_t) -> c_int {
	let f = real!(ftruncate64: fn(c_int, off_t) -> c_int);
	let (ino, _) = match simulated_fd(fd) {
		Some(x) => x,
		None => return f(fd, len),
	};
	let mut g = SESSION.lock().unwrap();
	let s = g.as_mut().unwrap();
	if s.frozen {
		set_errno(libc::EIO);
		return -1;
	}
	let class = s.ino_path.get(&ino).map(|p| path_class(p)).unwrap_or_default();
	if let Some(a) = check_fault(s, FaultKind::Truncate, &class) {
		set_errno(errno_of(a));
		return -1;
	}
	let r = f(fd, len);
	if r == 0 {
		s.ops.push(Op::Truncate { ino, len: len as u64 });
	}
	r
}
#[no_mangle]
pub unsafe extern "C" fn ftruncate(fd: c_int, len: off_t) -> c_int {
	ftruncate64(fd, len)
}

unsafe fn do_sync(fd: c_int, data_only: bool) -> c_int {
	let rf = real!(fsync: fn(c_int) -> c_int);
	let rd = real!(fdatasync: fn(c_int) -> c_int);
	if fd <= 2 || !DISK_ON.load(Ordering::Relaxed) {
		return if data_only { rd(fd) } else { rf(fd) };
	}
	let info = fd_info(fd);
	let mut g = SESSION.lock().unwrap();
	let s = match g.as_mut() {
		Some(s) => s,
		None => return if data_only { rd(fd) } else { rf(fd) },
	};
	match info {
		Some((ino, true, _)) if s.ino_path.contains_key(&ino) => {
			if s.frozen {
				set_errno(libc::EIO);
				return -1;
			}
			let class = s.ino_path.get(&ino).map(|p| path_class(p)).unwrap_or_default();
			if let Some(a) = check_fault(s, FaultKind::Fsync, &class) {
				set_errno(errno_of(a));
				return -1;
			}
			s.ops.push(Op::Fsync { ino });
			0 // tmpfs: nothing to do for real
		}
		Some((_, false, _)) => {
			// directory fsync inside the session?
			if let Some(p) = fd_path(fd) {
				if let Some(r) = rel(s, &p) {
					if s.frozen {
						set_errno(libc::EIO);
						return -1;
					}
					s.ops.push(Op::FsyncDir { path: r });
					return 0;
				}
			}
			drop(g);
			if data_only {
				rd(fd)
			} else {
				rf(fd)
			}
		}
		_ => {
			drop(g);
			if data_only {
				rd(fd)
			} else {
				rf(fd)
			}
		}
	}
}
#[no_mangle]
pub unsafe extern "C" fn fsync(fd: c_int) -> c_int {
	do_sync(fd, false)
}
#[no_mangle]
pub unsafe extern "C" fn fdatasync(fd: c_int) -> c_int {
	do_sync(fd, true)
}

// ---------- interposed: namespace ----------
unsafe fn two_paths(a: *const c_char, b: *const c_char) -> Option<(String, String)> {
	if !DISK_ON.load(Ordering::Relaxed) {
		return None;
	}
	let (sa, sb) = (cstr(a)?, cstr(b)?);
	let g = SESSION.lock().unwrap();
	let s = g.as_ref()?;
	Some((rel(s, &sa)?, rel(s, &sb)?))
}

unsafe fn one_path(a: *const c_char) -> Option<String> {
	if !DISK_ON.load(Ordering::Relaxed) {
		return None;
	}
	let sa = cstr(a)?;
	let g = SESSION.lock().unwrap();
	let s = g.as_ref()?;
	rel(s, &sa)
}

/// Common prologue for namespace ops: frozen check + fault. Returns Err(errno) to fail.
fn ns_gate(kind: FaultKind, class: &str) -> Result<(), c_int> {
	let mut g = SESSION.lock().unwrap();
	let s = g.as_mut().unwrap();
	if s.frozen {
		return Err(libc::EIO);
	}
	if let Some(a) = check_fault(s, kind, class) {
		return Err(errno_of(a));
	}
	Ok(())
}

fn push_op(op: Op) {
	if let Some(s) = SESSION.lock().unwrap().as_mut() {
		s.ops.push(op);
	}
}

#[no_mangle]
pub unsafe extern "C" fn rename(a: *const c_char, b: *const c_char) -> c_int {
	let f = real!(rename: fn(*const c_char, *const c_char) -> c_int);
	match two_paths(a, b) {
		None => f(a, b),
		Some((ra, rb)) => {
			if let Err(e) = ns_gate(FaultKind::Rename, &path_class(&rb)) {
				set_errno(e);
				return -1;
			}
			let r = f(a, b);
			if r == 0 {
				push_op(Op::Rename { from: ra, to: rb });
			}
			r
		}
	}
}

#[no_mangle]
pub unsafe extern "C" fn unlink(a: *const c_char) -> c_int {
	let f = real!(unlink: fn(*const c_char) -> c_int);
	match one_path(a) {
		None => f(a),
		Some(ra) => {
			if let Err(e) = ns_gate(FaultKind::Unlink, &path_class(&ra)) {
				set_errno(e);
				return -1;
			}
			let r = f(a);
			if r == 0 {
				push_op(Op::Unlink { path: ra });
			}
			r
		}
	}
}

#[no_mangle]
pub unsafe extern "C" fn rmdir(a: *const c_char) -> c_int {
	let f = real!(rmdir: fn(*const c_char) -> c_int);
	match one_path(a) {
		None => f(a),
		Some(ra) => {
			if let Err(e) = ns_gate(FaultKind::Unlink, "dir") {
				set_errno(e);
				return -1;
			}
			let r = f(a);
			if r == 0 {
				push_op(Op::Rmdir { path: ra });
			}
			r
		}
	}
}

#[no_mangle]
pub unsafe extern "C" fn unlinkat(dirfd: c_int, a: *const c_char, flags: c_int) -> c_int {
	let f = real!(unlinkat: fn(c_int, *const c_char, c_int) -> c_int);
	if !DISK_ON.load(Ordering::Relaxed) {
		return f(dirfd, a, flags);
	}
	let name = match cstr(a) {
		Some(n) => n,
		None => return f(dirfd, a, flags),
	};
	let abs = if name.starts_with('/') || dirfd == libc::AT_FDCWD {
		name
	} else {
		match fd_path(dirfd) {
			Some(d) => format!("{}/{}", d, name),
			None => return f(dirfd, a, flags),
		}
	};
	let r = {
		let g = SESSION.lock().unwrap();
		match g.as_ref().and_then(|s| rel(s, &abs)) {
			Some(r) => r,
			None => {
				drop(g);
				return f(dirfd, a, flags);
			}
		}
	};
	let is_dir = (flags & libc::AT_REMOVEDIR) != 0;
	if let Err(e) = ns_gate(FaultKind::Unlink, &if is_dir { "dir".to_string() } else { path_class(&r) }) {
		set_errno(e);
		return -1;
	}
	let res = f(dirfd, a, flags);
	if res == 0 {
		push_op(if is_dir { Op::Rmdir { path: r } } else { Op::Unlink { path: r } });
	}
	res
}

#[no_mangle]
pub unsafe extern "C" fn mkdir(a: *const c_char, mode: mode_t) -> c_int {
	let f = real!(mkdir: fn(*const c_char, mode_t) -> c_int);
	match one_path(a) {
		None => f(a, mode),
		Some(ra) => {
			if let Err(e) = ns_gate(FaultKind::Create, "dir") {
				set_errno(e);
				return -1;
			}
			let r = f(a, mode);
			if r == 0 {
				push_op(Op::Mkdir { path: ra });
			}
			r
		}
	}
}

#[no_mangle]
pub unsafe extern "C" fn link(a: *const c_char, b: *const c_char) -> c_int {
	let f = real!(link: fn(*const c_char, *const c_char) -> c_int);
	match two_paths(a, b) {
		None => f(a, b),
		Some((ra, rb)) => {
			if let Err(e) = ns_gate(FaultKind::Create, &path_class(&rb)) {
				set_errno(e);
				return -1;
			}
			let r = f(a, b);
			if r == 0 {
				push_op(Op::Link { from: ra, to: rb });
			}
			r
		}
	}
}

#[no_mangle]
pub unsafe extern "C" fn linkat(
	ad: c_int,
	a: *const c_char,
	bd: c_int,
	b: *const c_char,
	flags: c_int,
) -> c_int {
	let f = real!(linkat: fn(c_int, *const c_char, c_int, *const c_char, c_int) -> c_int);
	if ad == libc::AT_FDCWD && bd == libc::AT_FDCWD {
		if let Some((ra, rb)) = two_paths(a, b) {
			if let Err(e) = ns_gate(FaultKind::Create, &path_class(&rb)) {
				set_errno(e);
				return -1;
			}
			let r = f(ad, a, bd, b, flags);
			if r == 0 {
				push_op(Op::Link { from: ra, to: rb });
			}
			return r;
		}
	}
	f(ad, a, bd, b, flags)
}

// Force std::fs::copy to fall back to read+write, which the seam sees.
#[no_mangle]
pub unsafe extern "C" fn copy_file_range(
	a: c_int,
	ao: *mut off_t,
	b: c_int,
	bo: *mut off_t,
	len: size_t,
	flags: c_uint,
) -> ssize_t {
	if DISK_ON.load(Ordering::Relaxed) {
		set_errno(libc::ENOSYS);
		return -1;
	}
	let f = real!(copy_file_range: fn(c_int, *mut off_t, c_int, *mut off_t, size_t, c_uint) -> ssize_t);
	f(a, ao, b, bo, len, flags)
}
#[no_mangle]
pub unsafe extern "C" fn sendfile64(a: c_int, b: c_int, off: *mut off_t, n: size_t) -> ssize_t {
	if DISK_ON.load(Ordering::Relaxed) {
		set_errno(libc::EINVAL);
		return -1;
	}
	let f = real!(sendfile64: fn(c_int, c_int, *mut off_t, size_t) -> ssize_t);
	f(a, b, off, n)
}
#[no_mangle]
pub unsafe extern "C" fn sendfile(a: c_int, b: c_int, off: *mut off_t, n: size_t) -> ssize_t {
	sendfile64(a, b, off, n)
}
#[no_mangle]
pub unsafe extern "C" fn splice(
	a: c_int,
	ao: *mut off_t,
	b: c_int,
	bo: *mut off_t,
	n: size_t,
	fl: c_uint,
) -> ssize_t {
	if DISK_ON.load(Ordering::Relaxed) {
		set_errno(libc::EINVAL);
		return -1;
	}
	let f = real!(splice: fn(c_int, *mut off_t, c_int, *mut off_t, size_t, c_uint) -> ssize_t);
	f(a, ao, b, bo, n, fl)
}

// ---------- clock / random / pid ----------
#[no_mangle]
pub unsafe extern "C" fn clock_gettime(id: libc::clockid_t, ts: *mut libc::timespec) -> c_int {
	if CLOCK_ON.load(Ordering::Relaxed) && !ts.is_null() {
		let tick = CLOCK_TICK.load(Ordering::Relaxed);
		let now = if tick > 0 { NOW_NS.fetch_add(tick, Ordering::SeqCst) + tick } else { NOW_NS.load(Ordering::SeqCst) };
		(*ts).tv_sec = (now / 1_000_000_000) as libc::time_t;
		(*ts).tv_nsec = (now % 1_000_000_000) as c_long;
		return 0;
	}
	libc::syscall(libc::SYS_clock_gettime, id, ts) as c_int
}

fn mix(mut z: u64) -> u64 {
	z = z.wrapping_add(0x9E3779B97F4A7C15);
	z = (z ^ (z >> 30)).wrapping_mul(0xBF58476D1CE4E5B9);
	z = (z ^ (z >> 27)).wrapping_mul(0x94D049BB133111EB);
	z ^ (z >> 31)
}

#[no_mangle]
pub unsafe extern "C" fn getrandom(buf: *mut c_void, len: size_t, flags: c_uint) -> ssize_t {
	if RAND_ON.load(Ordering::Relaxed) {
		let key = RAND_KEY.load(Ordering::Relaxed);
		let out = std::slice::from_raw_parts_mut(buf as *mut u8, len);
		let mut i = 0;
		while i < len {
			let c = RAND_CTR.fetch_add(1, Ordering::SeqCst);
			let w = mix(key ^ mix(c)).to_le_bytes();
			let n = (len - i).min(8);
			out[i..i + n].copy_from_slice(&w[..n]);
			i += n;
		}
		return len as ssize_t;
	}
	libc::syscall(libc::SYS_getrandom, buf, len, flags) as ssize_t
}

#[no_mangle]
pub unsafe extern "C" fn getpid() -> libc::pid_t {
	if RAND_ON.load(Ordering::Relaxed) {
		return 4242;
	}
	libc::syscall(libc::SYS_getpid) as libc::pid_t
}
