//! Explanation predicates for known findings. A violation is attributed to a finding only
//! when the predicate accounts for *all* of the discrepancy; anything left unexplained
//! stays a VIOLATION.

use crate::exec::Violation;
use crate::framework::Judged;
use crate::plan::Plan;

pub fn explains(predicate: &str, _plan: &Plan, v: &Violation, j: &Judged) -> bool {
	match predicate {
		// set by the judging code itself after analysing the discrepancy
		p if !p.is_empty() => v.explained.as_deref() == Some(p) || j.context.get("explained_by").and_then(|x| x.as_str()) == Some(p),
		_ => false,
	}
}
