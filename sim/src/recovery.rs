//! Opening the real store on a crash image and judging what it recovered.

use std::collections::BTreeMap;
use std::path::Path;

use surrealkv::Mode;

use crate::case::on_fresh_thread;
use crate::disk::Op;
use crate::exec::{hex, open_store, scan, Violation, SCAN_HI, SCAN_LO};
use crate::interpose as ip;
use crate::model::{Key, Model, Val};
use crate::plan::StoreOpts;

pub struct RecResult {
	pub violation: Option<Violation>,
	/// the commit boundary the recovered contents correspond to
	pub p: Option<u64>,
	pub ops: Vec<Op>,
	pub contents: BTreeMap<Key, Val>,
}

fn diff(got: &BTreeMap<Key, Val>, want: &BTreeMap<Key, Val>) -> String {
	let mut parts = Vec::new();
	for (k, v) in want {
		match got.get(k) {
			None => parts.push(format!("{} missing (want {})", hex(k), hex(&v[..v.len().min(12)]))),
			Some(g) if g != v => parts.push(format!("{}={} (want {})", hex(k), hex(&g[..g.len().min(12)]), hex(&v[..v.len().min(12)]))),
			_ => {}
		}
	}
	for (k, g) in got {
		if !want.contains_key(k) {
			parts.push(format!("{}={} unexpected", hex(k), hex(&g[..g.len().min(12)])));
		}
	}
	parts.truncate(6);
	parts.join("; ")
}

/// The recovery rule: `got` must equal model.live(p) for one boundary p in lo..=hi.
/// On failure, says whether the known rotation-straddle finding explains all of it.
pub fn judge_contents(model: &Model, got: &BTreeMap<Key, Val>, lo: u64, hi: u64) -> (Option<u64>, Option<Violation>) {
	judge_contents_ctx(model, got, lo, hi, false)
}

/// `recovery_flushed`: the crash point lies after a flush performed by a recovery (a table
/// was written before the first commit of that session).
pub fn judge_contents_ctx(model: &Model, got: &BTreeMap<Key, Val>, lo: u64, hi: u64, recovery_flushed: bool) -> (Option<u64>, Option<Violation>) {
	let bounds = model.boundaries();
	if let Some(b) = bounds.iter().rev().find(|b| **b >= lo && **b <= hi && model.live(**b) == *got) {
		return (Some(*b), None);
	}
	// equal maps can occur at several boundaries: prefer the largest one not beyond `hi`
	let matching: Vec<u64> = bounds.iter().filter(|b| model.live(**b) == *got).copied().collect();
	let any = matching.iter().rev().find(|b| **b <= hi).or(matching.first()).copied();
	let mut v = match any {
		Some(b) if b < lo => Violation::new(
			"acked_lost",
			format!(
				"recovered state equals the commit prefix up to sequence {} but commits up to sequence {} had been acknowledged as durable before the crash: {}",
				b,
				lo,
				diff(got, &model.live(lo))
			),
		),
		Some(b) => Violation::new("future_data", format!("recovered state equals prefix {} which is beyond anything written before the crash point (hi={})", b, hi)),
		None => Violation::new(
			"not_prefix",
			format!(
				"recovered state equals no prefix of the commit order (window {}..{}); versus prefix {}: {}; versus prefix {}: {}",
				lo,
				hi,
				lo,
				diff(got, &model.live(lo)),
				hi,
				diff(got, &model.live(hi))
			),
		),
	};
	// explanation predicate "post_wal_failure_not_undone": commits that returned an error
	// after their WAL record had been appended are replayed by recovery
	if v.explained.is_none() {
		let ghost = |c: &crate::model::Commit| c.status == crate::model::Status::Failed && c.ghost_ok;
		if model.commits.iter().any(|c| ghost(c)) {
			let mut keys: Vec<Key> = model.all_keys();
			for k in got.keys() {
				if !keys.contains(k) {
					keys.push(k.clone());
				}
			}
			let ghost_seqs: Vec<u64> = model.commits.iter().filter(|c| ghost(c) && c.last_seq >= lo).map(|c| c.last_seq).collect();
			for p in bounds.iter().filter(|b| **b >= lo && **b <= hi).copied().chain(ghost_seqs.into_iter()) {
				let pp = p.max(lo);
				let ok = keys.iter().all(|k| model.possible2(k, pp, &|_| false, &ghost).contains(&got.get(k).cloned()));
				if ok {
					v.explained = Some("post_wal_failure_not_undone".into());
					v.detail = format!("{} [explained by known finding post_wal_failure_not_undone: the extra data belongs to commits that failed after their WAL append]", v.detail);
					break;
				}
			}
		}
	}
	// explanation predicate "rotation_straddle": some boundary p in the window exists such
	// that every key's recovered value is reachable by dropping only writes of commits whose
	// log record sits in a different WAL segment than the memtable their data was applied to
	// (F1 is repaired: this predicate names no listed finding any more and suppresses nothing;
	// it is evaluated after the open ones and only labels the report)
	if v.explained.is_none() && model.commits.iter().any(|c| c.straddled()) {
		let mut keys: Vec<Key> = model.all_keys();
		for k in got.keys() {
			if !keys.contains(k) {
				keys.push(k.clone());
			}
		}
		for p in bounds.iter().filter(|b| **b >= lo && **b <= hi) {
			let ok = keys.iter().all(|k| model.possible(k, *p, &|c| c.straddled()).contains(&got.get(k).cloned()));
			if ok {
				v.explained = Some("rotation_straddle".into());
				let lost: Vec<u64> = model.commits.iter().filter(|c| c.straddled() && c.last_seq <= *p).map(|c| c.txn).collect();
				v.detail = format!("{} [explained by known finding rotation_straddle: only writes of straddled transactions {:?} are missing]", v.detail, lost);
				break;
			}
		}
	}
	// explanation predicate "recovery_split_flush": the crash happened after a recovery had
	// flushed an intermediate memtable, and everything that is missing was logged in one
	// single WAL segment S (replay split S over two memtables, the flush of the first
	// advanced log_number past S)
	if v.explained.is_none() && recovery_flushed {
		let mut segs: Vec<u64> = model.commits.iter().filter_map(|c| c.logged_wal).collect();
		segs.sort();
		segs.dedup();
		let mut keys: Vec<Key> = model.all_keys();
		for k in got.keys() {
			if !keys.contains(k) {
				keys.push(k.clone());
			}
		}
		'outer: for seg in segs {
			for p in bounds.iter().filter(|b| **b >= lo && **b <= hi) {
				let ok = keys.iter().all(|k| model.possible(k, *p, &|c| c.logged_wal == Some(seg)).contains(&got.get(k).cloned()));
				if ok {
					v.explained = Some("recovery_split_flush".into());
					v.detail = format!("{} [explained by known finding recovery_split_flush: only writes logged in WAL segment {} are missing]", v.detail, seg);
					break 'outer;
				}
			}
		}
	}
	(any, Some(v))
}

/// Read everything through every access path; all paths must agree.
pub fn read_all(tree: &surrealkv::Tree, keys: &[Key]) -> Result<BTreeMap<Key, Val>, Violation> {
	let txn = tree.begin_with_mode(Mode::ReadOnly).map_err(|e| Violation::new("read_error", format!("begin failed: {}", e)))?;
	let fwd = scan(&txn, SCAN_LO, SCAN_HI, false).map_err(|e| Violation::new("read_error", format!("forward scan failed after recovery: {}", e)))?;
	let mut bwd = scan(&txn, SCAN_LO, SCAN_HI, true).map_err(|e| Violation::new("read_error", format!("backward scan failed after recovery: {}", e)))?;
	bwd.reverse();
	if fwd != bwd {
		return Err(Violation::new("scan_disagree", format!("forward and backward scans disagree after recovery: {} vs {} entries", fwd.len(), bwd.len())));
	}
	let m: BTreeMap<Key, Val> = fwd.into_iter().collect();
	for k in keys {
		if k.is_empty() {
			continue;
		}
		let g = txn.get(k.as_slice()).map_err(|e| Violation::new("read_error", format!("get({}) failed after recovery: {}", hex(k), e)))?;
		if g.as_ref() != m.get(k) {
			return Err(Violation::new("get_scan_disagree", format!("get({}) = {:?} but scan shows {:?}", hex(k), g.as_ref().map(|v| hex(v)), m.get(k).map(|v| hex(v)))));
		}
	}
	Ok(m)
}

/// Open the store on `dir` (traced), read everything, and judge against the recovery
/// rule: contents == model.live(p) for one commit boundary p with lo <= p <= hi.
/// `deep`: additionally commit a probe write, close cleanly, reopen and compare.
#[allow(clippy::too_many_arguments)]
/// `history`: also compare version history / time-travel reads with the recovered prefix (C10;
/// requires a workload inside C10's domain).
#[allow(clippy::too_many_arguments)]
pub fn recover_check(opts: &StoreOpts, dir: &Path, model: &Model, lo: u64, hi: u64, keys: &[Key], deep: bool, seed: u64, recovery_flushed: bool, history: bool) -> RecResult {
	let opts = opts.clone();
	let dir = dir.to_path_buf();
	let model = model.clone();
	let keys: Vec<Key> = keys.to_vec();
	let r = on_fresh_thread(move || {
		ip::set_now(ip::SIM_EPOCH_NS + 3_600_000_000_000);
		ip::enable_clock(true);
		ip::enable_rand(true, seed ^ 0x7ec0);
		ip::begin_session(dir.to_str().unwrap(), vec![]);
		let rt = tokio::runtime::Builder::new_current_thread().enable_time().start_paused(true).build().unwrap();
		let res = std::panic::catch_unwind(std::panic::AssertUnwindSafe(|| {
			rt.block_on(async {
				let mut all_keys = keys.clone();
				for k in model.all_keys() {
					if !all_keys.contains(&k) {
						all_keys.push(k);
					}
				}
				// deep legs alternate between "flush everything, then close" and "close without
				// flushing" (flush_on_close is a run-time knob): the second keeps recovered data
				// in the memtable + WAL only, so a recovery that dropped its WAL shows up
				let no_flush_leg = deep && seed % 2 == 1;
				let mut opts = opts.clone();
				if no_flush_leg {
					opts.flush_on_close = false;
				}
				let tree = match open_store(&opts, &dir) {
					Ok(t) => t,
					Err(e) => {
						return (Some(Violation::new("open_failed", format!("store does not open on its own crash image: {}", e))), None, BTreeMap::new());
					}
				};
				tokio::task::yield_now().await;
				let got = match read_all(&tree, &all_keys) {
					Ok(g) => g,
					Err(v) => {
						let _ = tree.close().await;
						return (Some(v), None, BTreeMap::new());
					}
				};
				let (p, mut viol) = judge_contents_ctx(&model, &got, lo, hi, recovery_flushed);
				if viol.is_none() && opts.versioning && history {
					if let Some(p) = p {
						// several commit prefixes can have the same live map (a soft delete of
						// an absent key, an overwrite with... ) but different histories: the
						// store may have recovered to any of them inside the window
						let mut cands: Vec<u64> = model.boundaries().into_iter().filter(|b| *b >= lo && *b <= hi.max(lo) && model.live(*b) == got).collect();
						if !cands.contains(&p) {
							cands.push(p);
						}
						let mut first: Option<Violation> = None;
						let mut ok = false;
						for c in cands.iter().rev() {
							match history_after_recovery(&tree, &model, *c) {
								None => {
									ok = true;
									break;
								}
								Some(v) => {
									if *c == p || first.is_none() {
										first = Some(v);
									}
								}
							}
						}
						if !ok {
							viol = first;
						}
					}
				}
				if viol.is_none() && deep {
					viol = deep_checks(&tree, &opts, &dir, &got, &all_keys, no_flush_leg, seed).await;
					return (viol, p, got);
				}
				let _ = tree.close().await;
				drop(tree);
				for _ in 0..3 {
					tokio::task::yield_now().await;
				}
				(viol, p, got)
			})
		}));
		drop(rt);
		let session = ip::end_session();
		ip::enable_clock(false);
		ip::enable_rand(false, 0);
		let ops = session.map(|s| s.ops).unwrap_or_default();
		match res {
			Ok((v, p, got)) => RecResult { violation: v, p, ops, contents: got },
			Err(_) => RecResult {
				violation: Some(Violation::new("panic", format!("panic during recovery: {}", crate::case::LAST_PANIC.lock().map(|g| g.clone()).unwrap_or_default()))),
				p: None,
				ops,
				contents: BTreeMap::new(),
			},
		}
	});
	ip::enable_clock(false);
	ip::enable_rand(false, 0);
	match r {
		Ok(r) => r,
		Err(msg) => {
			let _ = ip::end_session();
			RecResult { violation: Some(Violation::new("panic", format!("panic during recovery: {}", msg))), p: None, ops: vec![], contents: BTreeMap::new() }
		}
	}
}

/// With versioning on: the version history and time-travel reads of the recovered store
/// equal those of the commit prefix `p` it recovered to (both traversal directions).
fn history_after_recovery(tree: &surrealkv::Tree, model: &Model, p: u64) -> Option<Violation> {
	use surrealkv::{HistoryOptions, LSMIterator};
	let keys = model.all_keys();
	if keys.is_empty() {
		return None;
	}
	let lo = keys.iter().min().unwrap().clone();
	let mut hi = keys.iter().max().unwrap().clone();
	hi.push(0xff);
	let txn = match tree.begin_with_mode(Mode::ReadOnly) {
		Ok(t) => t,
		Err(e) => return Some(Violation::new("read_error", format!("begin after recovery failed: {}", e))),
	};
	type E = (Key, u64, bool, Option<Val>);
	let mut want: Vec<E> = Vec::new();
	let mut sorted = keys.clone();
	sorted.sort();
	for k in &sorted {
		for (ts, _ord, kind, val) in model.versions(k, p) {
			let tomb = kind == crate::model::Kind::SoftDelete;
			want.push((k.clone(), ts, tomb, if tomb { None } else { val }));
		}
	}
	let norm = |v: &mut Vec<E>| v.sort_by(|a, b| a.0.cmp(&b.0).then(b.1.cmp(&a.1)).then(a.2.cmp(&b.2)).then(a.3.cmp(&b.3)));
	norm(&mut want);
	for rev in [false, true] {
		let ho = HistoryOptions::new().with_tombstones(true);
		let got = (|| -> surrealkv::Result<Vec<E>> {
			let mut it = txn.history_with_options(lo.clone(), hi.clone(), &ho)?;
			let mut out = Vec::new();
			let mut ok = if rev { it.seek_last()? } else { it.seek_first()? };
			while ok && it.valid() {
				let k = it.key();
				let tomb = k.is_tombstone();
				if std::env::var("SKV_HDBG").is_ok() {
					eprintln!("HDBG rev={} key={} seq={} ts={} tomb={} hard={} replace={}", rev, hex(k.user_key()), k.seq_num(), k.timestamp(), tomb, k.is_hard_delete_marker(), k.is_replace());
				}
				out.push((k.user_key().to_vec(), k.timestamp(), tomb, if tomb { None } else { Some(it.value()?) }));
				ok = if rev { it.prev()? } else { it.next()? };
				if out.len() > 100_000 {
					break;
				}
			}
			Ok(out)
		})();
		let mut got = match got {
			Ok(g) => g,
			Err(e) => return Some(Violation::new("read_error", format!("history after recovery failed: {}", e))),
		};
		norm(&mut got);
		if got != want {
			let show = |v: &Vec<E>| v.iter().map(|e| format!("{}@{}{}", hex(&e.0), e.1 - ip::SIM_EPOCH_NS.min(e.1), if e.2 { "(tomb)" } else { "" })).collect::<Vec<_>>().join(", ");
			// every entry returned is right, some are missing: the silent form of an index
			// whose multi-page update was interrupted (own class so that F9 can name it)
			let lost_only = got.len() < want.len() && got.iter().all(|e| want.contains(e));
			return Some(Violation::new(
				if lost_only { "history_entries_lost" } else { "history_mismatch" },
				format!("after recovery to commit prefix {} the {} history is [{}] but that prefix's history is [{}]", p, if rev { "backward" } else { "forward" }, show(&got), show(&want)),
			));
		}
	}
	// time-travel reads at every version timestamp (and one below the oldest)
	for k in &sorted {
		let vs = model.versions(k, p);
		let mut tss: Vec<u64> = vs.iter().map(|v| v.0).collect();
		if let Some(m) = tss.iter().min().copied() {
			tss.push(m.saturating_sub(1));
		}
		for t in tss {
			let want = model.get_at(k, t, p);
			match txn.get_at(k.as_slice(), t) {
				Ok(g) => {
					if !want.contains(&g) {
						return Some(Violation::new("get_at_mismatch", format!("after recovery to commit prefix {}: get_at({}, {}) returned {:?}, that prefix has {:?}", p, hex(k), t - ip::SIM_EPOCH_NS.min(t), g.map(|x| String::from_utf8_lossy(&x[..x.len().min(16)]).to_string()), want.iter().map(|w| w.as_ref().map(|x| String::from_utf8_lossy(&x[..x.len().min(16)]).to_string())).collect::<Vec<_>>())));
					}
				}
				Err(e) => return Some(Violation::new("read_error", format!("get_at after recovery failed: {}", e))),
			}
		}
	}
	None
}

/// F9 (known finding): the B+tree version index is updated in place, page by page, without a
/// journal; a power loss that tears or drops one of its page writes leaves an index the store
/// cannot read (error or panic out of the B+tree code). True when `v` has that shape.
pub fn index_torn_by_power_loss(opts: &StoreOpts, power_loss: bool, v: &Violation) -> bool {
	power_loss
		&& opts.versioned_index
		&& matches!(v.class.as_str(), "panic" | "open_failed" | "read_error" | "reopen_failed" | "recover_failed")
		&& (v.detail.contains("B+ tree error") || v.detail.contains("src/bplustree/") || (v.detail.contains("out of range for slice of length 0") && v.detail.contains("/repo/src/lib.rs:")))
}

/// F9, process-crash form: the crash point lies in the MIDDLE of an in-place update of the
/// version index - the operation before it is a page write of the index file (page-sized,
/// page-aligned: only the B+tree writes like that) and so is the one after it - and the
/// failure comes out of the B+tree code. (A root or leaf split writes several pages and the
/// header; a crash between them leaves a header that points at a page not written yet, or -
/// silently - an old root that no longer reaches the half moved to the new sibling: history
/// then returns only correct entries but not all of them, class `history_entries_lost`; or both
/// the old leaf and its new sibling are reachable and entries come twice / erased ones come
/// back, class `history_mismatch`. Any wrong answer of the index at a crash point that lies
/// strictly inside a run of index page writes is this finding; everywhere else it is not.)
pub fn index_update_interrupted(opts: &StoreOpts, ops: &[Op], n: usize, v: &Violation) -> bool {
	let page_write = |o: Option<&Op>| matches!(o, Some(Op::Write { off, data, .. }) if off % 4096 == 0 && data.len() == 4096);
	opts.versioned_index
		&& n >= 1
		&& page_write(ops.get(n - 1))
		&& (page_write(ops.get(n)) || matches!(ops.get(n), Some(Op::Fsync { .. })))
		&& (matches!(v.class.as_str(), "history_entries_lost" | "history_mismatch" | "get_at_mismatch")
			|| (matches!(v.class.as_str(), "panic" | "open_failed" | "read_error" | "reopen_failed" | "recover_failed")
				&& (v.detail.contains("B+ tree error") || v.detail.contains("src/bplustree/") || (v.detail.contains("out of range for slice of length 0") && v.detail.contains("/repo/src/lib.rs:")))))
}

/// C07 legs on a successfully recovered store: commit to existing keys must be newest
/// (now, after flush, after reopen); reopening again yields the same contents.
async fn deep_checks(tree: &surrealkv::Tree, opts: &StoreOpts, dir: &Path, got: &BTreeMap<Key, Val>, keys: &[Key], no_flush_leg: bool, seed: u64) -> Option<Violation> {
	let mut expect = got.clone();
	// overwrite up to 3 existing keys and one fresh key
	let targets: Vec<Key> = got.keys().take(3).cloned().chain(std::iter::once(b"zz_probe".to_vec())).collect();
	let mut txn = match tree.begin() {
		Ok(t) => t,
		Err(e) => return Some(Violation::new("probe_commit_failed", e.to_string())),
	};
	for (i, k) in targets.iter().enumerate() {
		let v = format!("probe.{}", i).into_bytes();
		if let Err(e) = txn.set(k.as_slice(), v.as_slice()) {
			return Some(Violation::new("probe_commit_failed", e.to_string()));
		}
		expect.insert(k.clone(), v);
	}
	if let Err(e) = txn.commit().await {
		return Some(Violation::new("probe_commit_failed", format!("commit after recovery failed: {}", e)));
	}
	drop(txn);
	let mut all = keys.to_vec();
	all.push(b"zz_probe".to_vec());
	match read_all(tree, &all) {
		Ok(g) if g == expect => {}
		Ok(g) => {
			return Some(Violation::new("probe_shadowed", format!("a commit made after recovery is not the newest version: {}", diff(&g, &expect))));
		}
		Err(v) => return Some(v),
	}
	if !no_flush_leg {
		if let Err(e) = tree.verif_flush_all() {
			return Some(Violation::new("background_error", format!("flush after recovery failed: {}", e)));
		}
		match read_all(tree, &all) {
			Ok(g) if g == expect => {}
			Ok(g) => {
				return Some(Violation::new("probe_shadowed", format!("after flushing, a commit made after recovery is not the newest version: {}", diff(&g, &expect))));
			}
			Err(v) => return Some(v),
		}
	}
	if let Err(e) = tree.close().await {
		return Some(Violation::new("close_failed", format!("close after recovery failed: {}", e)));
	}
	for _ in 0..3 {
		tokio::task::yield_now().await;
	}
	// reopen twice
	for round in 0..2 {
		// the second reopen uses another (valid) level count: what is on disk has to open and
		// read the same under it - deeper levels than configured stay, missing ones are added
		let mut o2 = opts.clone();
		if round == 1 && (seed >> 3) % 2 == 0 {
			let alt = [1u8, 2, 3, 4, 6];
			o2.level_count = alt[((seed >> 5) % alt.len() as u64) as usize];
		}
		let opts = &o2;
		let t2 = match open_store(opts, dir) {
			Ok(t) => t,
			Err(e) => return Some(Violation::new("open_failed", format!("reopen #{} after recovery + clean close failed: {}", round + 1, e))),
		};
		tokio::task::yield_now().await;
		match read_all(&t2, &all) {
			Ok(g) if g == expect => {}
			Ok(g) => {
				let _ = t2.close().await;
				return Some(Violation::new("reopen_differs", format!("contents changed across clean reopen #{}: {}", round + 1, diff(&g, &expect))));
			}
			Err(v) => {
				let _ = t2.close().await;
				return Some(v);
			}
		}
		if let Err(e) = t2.close().await {
			return Some(Violation::new("close_failed", e.to_string()));
		}
		drop(t2);
		for _ in 0..3 {
			tokio::task::yield_now().await;
		}
	}
	None
}
