//! Plan generators shared by the checks.

use crate::model::{CurOp, ModeS};
use crate::plan::*;
use crate::rng::Rng;

pub fn key_universe(rng: &mut Rng, n: usize, adversarial: bool) -> Vec<Vec<u8>> {
	let mut ks: Vec<Vec<u8>> = Vec::new();
	if adversarial {
		let pool: Vec<Vec<u8>> = vec![
			vec![0x00],
			vec![0x00, 0x00],
			vec![0x01],
			b"a".to_vec(),
			b"a\x00".to_vec(),
			b"a\xff".to_vec(),
			b"aa".to_vec(),
			b"ab".to_vec(),
			b"b".to_vec(),
			vec![0xff],
			vec![0xff, 0x00],
			vec![0xff, 0xff],
			b"key".to_vec(),
			b"key\x00\x00".to_vec(),
			b"key0".to_vec(),
		];
		let mut pool = pool;
		while ks.len() < n && !pool.is_empty() {
			let i = rng.below(pool.len() as u64) as usize;
			ks.push(pool.remove(i));
		}
	}
	let mut i = 0;
	while ks.len() < n {
		ks.push(format!("k{:02}", i).into_bytes());
		i += 1;
	}
	ks.sort();
	ks.dedup();
	ks
}

pub fn random_opts(rng: &mut Rng) -> StoreOpts {
	let level_count = *rng.pick(&[1u8, 2, 2, 3, 3, 4]);
	let l0_max = *rng.pick(&[1usize, 2, 2, 3]);
	let mut o = StoreOpts {
		level_count,
		memtable: *rng.pick(&[1536usize, 2048, 3072, 4096, 8192]),
		block: *rng.pick(&[64usize, 128, 256, 512, 1024]),
		restart: *rng.pick(&[1usize, 2, 4, 16]),
		partition: *rng.pick(&[64usize, 128, 256, 512]),
		compression: vec![],
		filter: rng.chance(3, 4),
		cache: *rng.pick(&[0u64, 1024, 16384, 65536]),
		l0_max,
		max_bytes_level: *rng.pick(&[512u64, 2048, 8192]),
		multiplier_x10: *rng.pick(&[10u32, 20, 40]),
		l0_stall: 1000,
		memtable_stall: 1000,
		flush_on_close: rng.chance(1, 2),
		..StoreOpts::default()
	};
	if rng.chance(1, 3) {
		o.compression = (0..level_count).map(|_| rng.below(2) as u8).collect();
	}
	// versioning (all versions kept by compaction, optional B+tree version index) is a valid
	// configuration for every property, not only for C10
	if rng.chance(1, 5) {
		o.versioning = true;
		o.versioned_index = rng.chance(1, 2);
		o.retention_ns = 0;
	}
	o
}

pub fn with_vlog(rng: &mut Rng, o: &mut StoreOpts) {
	o.vlog = true;
	o.vlog_threshold = *rng.pick(&[16usize, 32, 64]);
	o.vlog_max_file = *rng.pick(&[256u64, 512, 2048, 1 << 20]);
	o.vlog_checksum_full = rng.chance(1, 2);
}

pub struct TagGen(pub u32);
impl TagGen {
	pub fn next(&mut self, len: u32) -> V {
		self.0 += 1;
		V { tag: self.0, len }
	}
}

pub fn value_len(rng: &mut Rng) -> u32 {
	match rng.below(10) {
		0 => 8,
		1..=5 => rng.range(10, 40) as u32,
		6..=8 => rng.range(40, 160) as u32,
		_ => rng.range(160, 600) as u32,
	}
}

/// Payload budget of one transaction so that its batch always fits a fresh memtable
/// comfortably (head/tail towers take ~400 bytes, every node 32+8h bytes with random h).
pub fn txn_budget(memtable: usize) -> u32 {
	(memtable.saturating_sub(640) / 3).max(48) as u32
}

/// One single-actor write transaction: begin, 1..max_writes writes, commit.
#[allow(clippy::too_many_arguments)]
pub fn write_txn(rng: &mut Rng, a: u8, nkeys: u16, tags: &mut TagGen, max_writes: u32, sync_pct: u64, budget: u32, steps: &mut Vec<Step>) {
	steps.push(Step::Begin { a, mode: ModeS::ReadWrite });
	let n = rng.range(1, max_writes as u64);
	let mut left = budget;
	for _ in 0..n {
		if left < 70 {
			break;
		}
		let k = rng.below(nkeys as u64) as u16;
		match rng.below(10) {
			0 => {
				steps.push(Step::Delete { a, k, ts: None });
				left -= 60;
			}
			1 => {
				steps.push(Step::SoftDelete { a, k, ts: None });
				left -= 60;
			}
			2 => {
				let len = value_len(rng).min(left - 60).max(8);
				let v = tags.next(len);
				steps.push(Step::Replace { a, k, v });
				left = left.saturating_sub(60 + len);
			}
			_ => {
				let len = value_len(rng).min(left - 60).max(8);
				let v = tags.next(len);
				steps.push(Step::Set { a, k, v, ts: None });
				left = left.saturating_sub(60 + len);
			}
		}
	}
	steps.push(Step::Commit { a, sync: rng.below(100) < sync_pct });
}

pub fn cursor_prog(rng: &mut Rng, nkeys: u16, len: usize) -> Vec<CurOp> {
	let mut p = Vec::new();
	// always start with a positioning op
	p.push(match rng.below(3) {
		0 => CurOp::SeekFirst,
		1 => CurOp::SeekLast,
		_ => CurOp::Seek(rng.below(nkeys as u64) as u16),
	});
	while p.len() < len {
		p.push(match rng.below(12) {
			0 => CurOp::SeekFirst,
			1 => CurOp::SeekLast,
			2 | 3 => CurOp::Seek(rng.below(nkeys as u64) as u16),
			4..=7 => CurOp::Next,
			_ => CurOp::Prev,
		});
	}
	p
}

/// Background / physical-arrangement step.
pub fn physical_step(rng: &mut Rng, allow_reopen: bool) -> Step {
	match rng.below(if allow_reopen { 12 } else { 10 }) {
		0 | 1 => Step::Rotate,
		2..=4 => Step::FlushOne,
		5 => Step::FlushAll,
		6..=8 => Step::CompactRound,
		9 => Step::CompactAll,
		_ => Step::Reopen,
	}
}
