//! C18: the B+tree index is a persistent ordered map. Operation programs against the real
//! on-disk tree and a BTreeMap under the same order, with close/reopen events ("only
//! on-file state survives") and a page-conservation leg.

use std::collections::BTreeMap;
use std::ops::Bound;
use std::sync::Arc;

use surrealkv::bplustree::tree::DiskBPlusTree;
use surrealkv::{BytewiseComparator, Comparator, TimestampComparator};

use crate::case::{fresh_dir, on_fresh_thread, LAST_PANIC};
use crate::exec::{hex, Violation};
use crate::framework::{CheckDef, Judged, Tier};
use crate::plan::*;
use crate::rng::Rng;

fn gen(case_seed: u64, _case: u64, tier: Tier) -> Plan {
	let mut p = Plan {
		check: "C18".into(),
		case_seed,
		opts: StoreOpts::default(),
		keys: vec![],
		steps: vec![],
		windows: vec![],
		async_yields: false,
		gate_tasks: false,
		faults: vec![],
		crash: None,
		params: BTreeMap::new(),
		twin: None,
	};
	p.params.insert("steps".into(), match tier {
		Tier::Quick => 400,
		Tier::Thorough => 1500,
	});
	p
}

/// Model key: what the comparator considers equal maps to one entry.
#[derive(Clone, PartialEq, Eq, PartialOrd, Ord, Debug)]
enum MKey {
	Bytes(Vec<u8>),
	Ts(Vec<u8>, std::cmp::Reverse<u64>),
}

fn value_of(tag: u32, len: usize) -> Vec<u8> {
	let mut v = Vec::with_capacity(len);
	let mut x = tag as u64 ^ 0x1234;
	let head = format!("b{}.", tag).into_bytes();
	for i in 0..len {
		if i < head.len() {
			v.push(head[i]);
		} else {
			x = x.wrapping_mul(6364136223846793005).wrapping_add(1442695040888963407);
			v.push((x >> 33) as u8);
		}
	}
	v
}

fn run_case(plan: &Plan) -> Judged {
	let mut j = Judged::default();
	let mut rng = Rng::new(plan.case_seed);
	let ts_order = rng.chance(1, 2);
	let dir = fresh_dir("bpt");
	std::fs::create_dir_all(&dir).ok();
	let path = dir.join("index.bpt");
	let cmp: Arc<dyn Comparator> = if ts_order {
		Arc::new(TimestampComparator::new(Arc::new(BytewiseComparator::default())))
	} else {
		Arc::new(BytewiseComparator::default())
	};
	let fail = |j: &mut Judged, class: &str, d: String| {
		if j.violation.is_none() {
			j.violation = Some(Violation::new(class, d));
		}
	};
	let mut tree = match DiskBPlusTree::disk(&path, Arc::clone(&cmp)) {
		Ok(t) => t,
		Err(e) => {
			fail(&mut j, "open_failed", e.to_string());
			return j;
		}
	};
	// skewed key universe
	let nkeys = rng.range(8, 200) as usize;
	let prefix_len = rng.range(0, 40) as usize;
	// one case in 6: a third of the keys are around or beyond a quarter page up to larger than a
	// page (keys that spill into overflow chains, also when they become separators)
	let big_keys = rng.chance(1, 6);
	if big_keys {
		j.count("big_key_cases", 1);
	}
	let mut ukeys: Vec<Vec<u8>> = (0..nkeys)
		.map(|i| {
			let mut k = vec![b'p'; prefix_len];
			match rng.below(4) {
				0 => k.extend_from_slice(format!("{:03}", i).as_bytes()),
				1 => k.extend_from_slice(&[(i % 251) as u8, 0x00, (i / 251) as u8]),
				2 => k.extend_from_slice(&[0xff, (i % 256) as u8, 0xff]),
				_ if big_keys && rng.chance(1, 2) => {
					let extra = *rng.pick(&[900usize, 990, 995, 1000, 1010, 1500, 2500, 5000]) + rng.below(8) as usize;
					k.extend_from_slice(format!("{:05}", i).as_bytes());
					k.extend((0..extra).map(|x| b'a' + ((x * 7 + i * 13) % 23) as u8)); // tails differ from key to key
				}
				_ => {
					let extra = rng.range(1, 300) as usize;
					k.extend_from_slice(format!("{:05}", i).as_bytes());
					k.extend(std::iter::repeat(b'x').take(extra));
				}
			}
			k
		})
		.collect();
	ukeys.sort();
	ukeys.dedup();
	let enc = |uk: &Vec<u8>, ts: u64| -> (Vec<u8>, MKey) {
		if ts_order {
			let mut e = uk.clone();
			e.extend_from_slice(&((7u64 << 8) | 2).to_be_bytes()); // trailer: seq 7, kind Set
			e.extend_from_slice(&ts.to_be_bytes());
			(e, MKey::Ts(uk.clone(), std::cmp::Reverse(ts)))
		} else {
			(uk.clone(), MKey::Bytes(uk.clone()))
		}
	};
	let mut model: BTreeMap<MKey, (Vec<u8>, Vec<u8>)> = BTreeMap::new(); // model key -> (encoded key, value)
	let steps = plan.params.get("steps").copied().unwrap_or(400) as usize;
	let n_steps = rng.range(steps as u64 / 4, steps as u64) as usize;
	let big_values = rng.chance(1, 2);
	// one case in 32: a few values of several megabytes - an overflow chain of more than a
	// thousand pages, so that freeing it needs a second trunk page of the free list (a trunk
	// holds about 1020 page numbers) and re-inserting drains the list across trunks
	let huge = rng.chance(1, 32);
	let n_steps = if huge { n_steps.min(160) } else { n_steps };
	let mut tag = 0u32;
	let mut reopens = 0;
	// version order: half of the cases keep MANY versions of a few hot keys (timestamps from a
	// wide range, 70% of the operations on one or two user keys), so that the versions of one
	// user key span several leaves and separators of the same user key meet in one parent
	let ts_span: u64 = if ts_order && rng.chance(1, 2) { *rng.pick(&[64u64, 1000, 1_000_000]) } else { 5 };
	let hot: Vec<usize> = if ts_span > 5 { (0..rng.range(1, 2)).map(|_| rng.below(ukeys.len() as u64) as usize).collect() } else { vec![] };
	if ts_span > 5 {
		j.count("version_order.many_versions_cases", 1);
	}
	let mut clock = 0u64;
	for step in 0..n_steps {
		let uk = if !hot.is_empty() && rng.chance(7, 10) {
			ukeys[hot[rng.below(hot.len() as u64) as usize]].clone()
		} else {
			ukeys[(rng.below(ukeys.len() as u64).min(rng.below(ukeys.len() as u64 * 2))) as usize % ukeys.len()].clone()
		};
		clock += 1;
		let opk = rng.below(20);
		let ts = if ts_span > 5 {
			let existing: Vec<u64> = if opk >= 9 && opk <= 16 && rng.chance(3, 4) {
				// deletes and lookups mostly aim at versions that exist
				model.range(MKey::Ts(uk.clone(), std::cmp::Reverse(u64::MAX))..=MKey::Ts(uk.clone(), std::cmp::Reverse(0))).filter_map(|(k, _)| if let MKey::Ts(_, t) = k { Some(t.0) } else { None }).collect()
			} else {
				vec![]
			};
			if !existing.is_empty() {
				existing[rng.below(existing.len() as u64) as usize]
			} else if rng.chance(2, 3) {
				// mostly fresh timestamps in commit order (a monotonic clock), some from anywhere
				clock
			} else {
				rng.range(1, ts_span.max(clock))
			}
		} else {
			rng.range(1, ts_span)
		};
		let (ek, mk) = enc(&uk, ts);
		match opk {
			0..=8 => {
				tag += 1;
				let len = if huge && rng.chance(1, 12) {
					j.count("huge_values", 1);
					rng.range(500_000, 5_000_000) as usize
				} else if big_values && rng.chance(1, 6) {
					rng.range(3000, 12500) as usize
				} else {
					rng.range(0, 300) as usize
				};
				let v = value_of(tag, len);
				if let Err(e) = tree.insert(&ek, &v) {
					fail(&mut j, "op_failed", format!("step {}: insert({}, {} bytes) failed: {}", step, hex(&ek[..ek.len().min(24)]), len, e));
					break;
				}
				model.insert(mk, (ek, v));
				j.count("inserts", 1);
			}
			9..=12 => {
				let want = model.remove(&mk).map(|x| x.1);
				match tree.delete(&ek) {
					Ok(got) => {
						let got = got.map(|b| b.to_vec());
						if got != want {
							fail(&mut j, "delete_mismatch", format!("step {}: delete({}) returned {:?} bytes, the map holds {:?} bytes", step, hex(&ek[..ek.len().min(24)]), got.map(|g| g.len()), want.map(|w| w.len())));
							break;
						}
					}
					Err(e) => {
						fail(&mut j, "op_failed", format!("step {}: delete failed: {}", step, e));
						break;
					}
				}
				j.count("deletes", 1);
			}
			13..=16 => {
				let want = model.get(&mk).map(|x| x.1.clone());
				match tree.get(&ek) {
					Ok(got) => {
						if got.map(|b| b.to_vec()) != want {
							fail(&mut j, "get_mismatch", format!("step {}: get({}) differs from the map (map has {:?} bytes)", step, hex(&ek[..ek.len().min(24)]), want.map(|w| w.len())));
							break;
						}
					}
					Err(e) => {
						fail(&mut j, "op_failed", format!("step {}: get failed: {}", step, e));
						break;
					}
				}
				j.count("gets", 1);
			}
			17 | 18 => {
				// range scan between two keys
				let uk2 = ukeys[rng.below(ukeys.len() as u64) as usize].clone();
				let (e2, m2) = enc(&uk2, rng.range(1, ts_span.max(clock).max(6)));
				let ((lo_e, lo_m), (hi_e, hi_m)) = if mk <= m2 { ((ek.clone(), mk.clone()), (e2, m2)) } else { ((e2, m2), (ek.clone(), mk.clone())) };
				let want: Vec<(Vec<u8>, Vec<u8>)> = model.range((Bound::Included(lo_m), Bound::Excluded(hi_m))).map(|(_, v)| v.clone()).collect();
				let got: Result<Vec<(Vec<u8>, Vec<u8>)>, String> = (|| {
					let it = tree.range(lo_e.as_slice()..hi_e.as_slice()).map_err(|e| e.to_string())?;
					let mut out = Vec::new();
					for r in it {
						let (k, v) = r.map_err(|e| e.to_string())?;
						out.push((k.to_vec(), v.to_vec()));
						if out.len() > 100_000 {
							return Err("runaway range scan".into());
						}
					}
					Ok(out)
				})();
				match got {
					Ok(g) => {
						if g != want {
							fail(&mut j, "range_mismatch", format!("step {}: range scan returned {} entries, the map has {} in that range", step, g.len(), want.len()));
							break;
						}
					}
					Err(e) => {
						fail(&mut j, "op_failed", format!("step {}: range failed: {}", step, e));
						break;
					}
				}
				j.count("ranges", 1);
			}
			_ => {
				// close + reopen: only on-file state survives
				if let Err(e) = tree.close() {
					fail(&mut j, "op_failed", format!("step {}: close failed: {}", step, e));
					break;
				}
				drop(tree);
				tree = match DiskBPlusTree::disk(&path, Arc::clone(&cmp)) {
					Ok(t) => t,
					Err(e) => {
						fail(&mut j, "reopen_failed", format!("step {}: reopen failed: {}", step, e));
						let _ = std::fs::remove_dir_all(&dir);
						return j;
					}
				};
				reopens += 1;
				// full comparison after every reopen
				if let Some(d) = full_compare(&tree, &model) {
					fail(&mut j, "reopen_mismatch", format!("step {}: after close + reopen: {}", step, d));
					break;
				}
			}
		}
	}
	if j.violation.is_none() {
		if let Some(d) = full_compare(&tree, &model) {
			fail(&mut j, "final_mismatch", d);
		}
	}
	// page conservation: identical insert-all / delete-all cycles must reach a fixed file size
	if j.violation.is_none() {
		let _ = tree.close();
		drop(tree);
		let mut sizes = Vec::new();
		let mut t = match DiskBPlusTree::disk(&path, Arc::clone(&cmp)) {
			Ok(t) => t,
			Err(e) => {
				fail(&mut j, "reopen_failed", e.to_string());
				let _ = std::fs::remove_dir_all(&dir);
				return j;
			}
		};
		// empty the tree first
		let all: Vec<Vec<u8>> = model.values().map(|v| v.0.clone()).collect();
		for k in &all {
			let _ = t.delete(k);
		}
		let cyc_keys: Vec<Vec<u8>> = ukeys.iter().take(60).map(|k| enc(k, 3).0).collect();
		for cycle in 0..8 {
			for (i, k) in cyc_keys.iter().enumerate() {
				if let Err(e) = t.insert(k, value_of(i as u32, if huge && i == 3 { 4_400_000 } else if big_values && i % 7 == 0 { 9000 } else { 120 })) {
					fail(&mut j, "op_failed", format!("cycle {} insert failed: {}", cycle, e));
				}
			}
			for k in &cyc_keys {
				if let Err(e) = t.delete(k) {
					fail(&mut j, "op_failed", format!("cycle {} delete failed: {}", cycle, e));
				}
			}
			let _ = t.flush();
			sizes.push(std::fs::metadata(&path).map(|m| m.len()).unwrap_or(0));
		}
		if j.violation.is_none() && sizes[7] > sizes[3] {
			fail(&mut j, "page_leak", format!("identical insert-all/delete-all cycles keep growing the file: sizes after cycles 1..8 = {:?} (pages are not reused)", sizes));
		}
		j.count("conservation_legs", 1);
		let _ = t.close();
	}
	j.evaluations = 1;
	j.nontrivial = n_steps >= 50 && reopens >= 1;
	j.sig = plan.case_seed;
	j.count("reopens", reopens);
	j.count(if ts_order { "order.timestamp" } else { "order.bytewise" }, 1);
	let _ = std::fs::remove_dir_all(&dir);
	j
}

fn full_compare(tree: &DiskBPlusTree, model: &BTreeMap<MKey, (Vec<u8>, Vec<u8>)>) -> Option<String> {
	let want: Vec<(Vec<u8>, Vec<u8>)> = model.values().cloned().collect();
	let empty: &[u8] = &[];
	let it = match tree.range(empty..) {
		Ok(i) => i,
		Err(e) => return Some(format!("full scan failed: {}", e)),
	};
	let mut got = Vec::new();
	for r in it {
		match r {
			Ok((k, v)) => got.push((k.to_vec(), v.to_vec())),
			Err(e) => return Some(format!("full scan failed after {} entries: {}", got.len(), e)),
		}
		if got.len() > 1_000_000 {
			return Some("runaway full scan".into());
		}
	}
	if got != want {
		let i = got.iter().zip(want.iter()).position(|(a, b)| a != b).unwrap_or(got.len().min(want.len()));
		return Some(format!(
			"full scan has {} entries, the map {}; first difference at position {} (tree {:?}, map {:?})",
			got.len(),
			want.len(),
			i,
			got.get(i).map(|(k, v)| (hex(&k[..k.len().min(20)]), v.len())),
			want.get(i).map(|(k, v)| (hex(&k[..k.len().min(20)]), v.len()))
		));
	}
	for (k, v) in want.iter().step_by(7) {
		match tree.get(k) {
			Ok(g) => {
				if g.map(|b| b.to_vec()).as_ref() != Some(v) {
					return Some(format!("get({}) differs from the map after a matching scan", hex(&k[..k.len().min(20)])));
				}
			}
			Err(e) => return Some(format!("get failed: {}", e)),
		}
	}
	None
}

fn judge(plan: &Plan, _tier: Tier) -> Judged {
	let p = plan.clone();
	match on_fresh_thread(move || run_case(&p)) {
		Ok(j) => j,
		Err(msg) => {
			let mut j = Judged::default();
			let m = if msg.is_empty() { LAST_PANIC.lock().map(|g| g.clone()).unwrap_or_default() } else { msg };
			j.violation = Some(Violation::new("panic", format!("panic in a B+tree operation: {}", m)));
			j
		}
	}
}

pub fn c18() -> CheckDef {
	CheckDef {
		id: "C18",
		level: "exploration",
		rule: "a case = an operation program of up to 400 (quick) / 1500 (thorough) steps (insert / overwrite, delete, get, range scan, close + reopen at arbitrary points) on the real on-disk B+tree over a skewed key universe (8-200 keys, shared prefixes of 0-40 bytes, 0x00/0xff bytes, keys up to 340 bytes) with values of 0-300 bytes and, in half the cases, 3-12.5 KB (overflow chains, entries larger than a page), under the bytewise or the timestamp (version) key order. Oracle: BTreeMap under the same order for every operation, full scan + sampled gets after every reopen and at the end; conservation leg: eight identical insert-all / delete-all cycles must not keep growing the file (free pages are reused). non-trivial = >=50 steps and >=1 reopen; distinct = case seeds",
		assumptions: &["no schedule or fault in the statement: the only simulator event is close + reopen (scope note in DESIGN.md); crash consistency of the index is C10's", "page accounting is judged from outside (file size under identical cycles): calculate_tree_stats is cfg(test)-only"],
		components: "real: bplustree::tree::DiskBPlusTree on std::fs files; simulated: nothing but the program and reopen points; stubbed: nothing",
		cases: |t| match t {
			Tier::Quick => 8000,
			Tier::Thorough => 100000,
		},
		gen,
		judge,
		shrink_budget: 0,
	}
}
