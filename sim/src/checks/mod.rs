pub mod crash;

use crate::framework::CheckDef;

pub fn all() -> Vec<CheckDef> {
	vec![crash::c02(), crash::c03(), crash::c07()]
}

pub fn find(id: &str) -> Option<CheckDef> {
	all().into_iter().find(|c| c.id == id)
}
