pub mod btree;
pub mod crash;
pub mod damage;
pub mod faults;
pub mod lock;
pub mod session;
pub mod wal;

use crate::framework::CheckDef;

pub fn all() -> Vec<CheckDef> {
	vec![session::c01(), crash::c02(), crash::c03(), session::c04(), session::c05(), session::c06(), crash::c07(), session::c08(), session::c09(), session::c10(), session::c11(), wal::c12(), session::c14(), faults::c15(), damage::c16(), session::c17(), btree::c18(), lock::c19()]
}

pub fn find(id: &str) -> Option<CheckDef> {
	all().into_iter().find(|c| c.id == id)
}
