//! C19: one live instance per database directory. Opener plans (open / close / drop) in
//! one process on the traced disk, plus cross-process legs with a child that holds the
//! lock and is killed.

use std::collections::BTreeMap;
use std::future::Future;
use std::io::{BufRead, BufReader, Write};
use std::process::{Command, Stdio};

use surrealkv::Tree;

use crate::case::{fresh_dir, on_fresh_thread, LAST_PANIC};
use crate::disk::Op;
use crate::exec::{open_store, Violation};
use crate::framework::{CheckDef, Judged, Tier};
use crate::interpose as ip;
use crate::plan::*;
use crate::rng::Rng;

fn gen(case_seed: u64, case: u64, _tier: Tier) -> Plan {
	let mut p = Plan {
		check: "C19".into(),
		case_seed,
		opts: StoreOpts::default(),
		keys: vec![],
		steps: vec![],
		windows: vec![],
		async_yields: false,
		gate_tasks: false,
		faults: vec![],
		crash: None,
		params: BTreeMap::new(),
		twin: None,
	};
	// every 40th case is a cross-process leg (slower: spawns children)
	p.params.insert("cross_process".into(), if case % 40 == 39 { 1 } else { 0 });
	p
}

fn only_lock_touched(ops: &[Op]) -> Result<(), String> {
	// a refused open may create / truncate / write / sync the LOCK file and nothing else:
	// every logged operation is mapped back to its path through the interposer's inode table
	for op in ops {
		let ino = match op {
			Op::Marker { .. } => continue,
			Op::Create { path, .. } if path == "LOCK" => continue,
			Op::Truncate { ino, .. } | Op::Write { ino, .. } | Op::Fsync { ino, .. } => *ino,
			other => return Err(format!("a refused open performed: {}", other.short())),
		};
		match ip::path_of_ino(ino) {
			Some(p) if p == "LOCK" => {}
			p => return Err(format!("a refused open performed: {} on {}", op.short(), p.unwrap_or_else(|| "an unknown file".into()))),
		}
	}
	Ok(())
}

fn in_process(plan: &Plan) -> Judged {
	let mut j = Judged::default();
	let seed = plan.case_seed;
	let r = on_fresh_thread(move || {
		let mut j = Judged::default();
		let mut rng = Rng::new(seed);
		let dir = fresh_dir("lock");
		std::fs::create_dir_all(&dir).ok();
		ip::set_now(ip::SIM_EPOCH_NS);
		ip::enable_clock(true);
		ip::enable_rand(true, seed);
		ip::begin_session(dir.to_str().unwrap(), vec![]);
		let mut opts = StoreOpts::default();
		opts.flush_on_close = rng.chance(1, 2);
		opts.memtable = 512 * 1024; // room for the multi-block commit of the mid-append leg
		let rt = tokio::runtime::Builder::new_current_thread().enable_time().start_paused(true).build().unwrap();
		let fail = |j: &mut Judged, c: &str, d: String| {
			if j.violation.is_none() {
				j.violation = Some(Violation::new(c, d));
			}
		};
		rt.block_on(async {
			let mut slots: Vec<Option<Tree>> = vec![None, None, None];
			let mut holder: Option<usize> = None;
			// a dropped (not closed) instance releases the lock only when its spawned close ran
			let mut pending_drop = false;
			let mut written = 0u32;
			// handles of instances that were closed explicitly but are still held by the caller:
			// closing them again or dropping them (Drop closes once more) must not disturb the
			// instance that holds the directory now
			let mut zombies: Vec<Tree> = Vec::new();
			let n = rng.range(3, 12);
			for step in 0..n {
				let i = rng.below(3) as usize;
				match rng.below(18) {
					0..=4 => {
						// open attempt
						if slots[i].is_some() {
							continue;
						}
						let from = ip::op_count();
						let r = open_store(&opts, &dir);
						let ops = ip::ops_since(from);
						match (holder, r) {
							(Some(h), Ok(_t)) => {
								fail(&mut j, "double_open", format!("step {}: opener {} opened the directory while opener {} holds it", step, i, h));
								return;
							}
							(Some(_), Err(_)) => {
								j.count("refused_opens", 1);
								if let Err(d) = only_lock_touched(&ops) {
									fail(&mut j, "refused_open_touched_data", format!("step {}: {}", step, d));
									return;
								}
							}
							(None, Ok(t)) => {
								pending_drop = false;
								// data of earlier sessions is there; add a key
								let mut txn = t.begin().unwrap();
								written += 1;
								let _ = txn.set(format!("s{}", written).as_bytes(), b"x".as_slice());
								if let Err(e) = txn.commit().await {
									fail(&mut j, "commit_failed", e.to_string());
									return;
								}
								drop(txn);
								let rtxn = t.begin().unwrap();
								for w in 1..=written {
									match rtxn.get(format!("s{}", w).as_bytes()) {
										Ok(Some(_)) => {}
										other => {
											fail(&mut j, "data_lost", format!("step {}: key s{} of an earlier session reads {:?}", step, w, other.map(|o| o.is_some())));
											return;
										}
									}
								}
								drop(rtxn);
								slots[i] = Some(t);
								holder = Some(i);
								j.count("successful_opens", 1);
							}
							(None, Err(e)) => {
								if pending_drop {
									// legitimate: the dropped instance's close has not run yet; after
									// letting the runtime run it, the open must succeed
									let mut ok = None;
									for _ in 0..50 {
										tokio::task::yield_now().await;
										tokio::time::advance(std::time::Duration::from_millis(60)).await;
										if let Ok(t) = open_store(&opts, &dir) {
											ok = Some(t);
											break;
										}
									}
									match ok {
										Some(t) => {
											pending_drop = false;
											slots[i] = Some(t);
											holder = Some(i);
											j.count("opens_after_drop_settled", 1);
										}
										None => {
											fail(&mut j, "not_reopenable", format!("step {}: directory cannot be opened although the only instance was dropped and the runtime ran for 3 simulated seconds: {}", step, e));
											return;
										}
									}
								} else {
									fail(&mut j, "not_reopenable", format!("step {}: no live instance, yet open failed: {}", step, e));
									return;
								}
							}
						}
					}
					5..=7 => {
						// close
						if let Some(t) = slots[i].take() {
							// close() is driven by hand: between its polls (it waits for the
							// background tasks) another open is attempted - while the closing
							// instance is still working on its files it must be refused
							let was_holder = holder == Some(i);
							let probe_mid_close = was_holder && rng.chance(1, 2);
							// a quarter of the closes: the first close() is abandoned at one of its
							// suspension points (what a timeout or select! around it does), then the
							// handle is closed again - that second close() must finish the job
							let cancel_after: Option<u32> = if rng.chance(1, 4) { Some(rng.range(1, 2) as u32) } else { None };
							let mut cancelled = false;
							let res = {
								struct NoWake;
								impl std::task::Wake for NoWake {
									fn wake(self: std::sync::Arc<Self>) {}
								}
								let waker = std::task::Waker::from(std::sync::Arc::new(NoWake));
								let mut cx = std::task::Context::from_waker(&waker);
								let mut fut = Box::pin(t.close());
								let mut polls = 0u32;
								loop {
									if let std::task::Poll::Ready(r) = fut.as_mut().poll(&mut cx) {
										break r;
									}
									polls += 1;
									if cancel_after == Some(polls) {
										cancelled = true;
										break Ok(());
									}
									if probe_mid_close && polls <= 2 {
										let from = ip::op_count();
										let r2 = open_store(&opts, &dir);
										let ops = ip::ops_since(from);
										j.count("open_attempts_during_close", 1);
										if r2.is_ok() {
											fail(&mut j, "double_open", format!("step {}: the directory was opened while opener {} was still inside close()", step, i));
											return;
										}
										if let Err(d) = only_lock_touched(&ops) {
											fail(&mut j, "refused_open_touched_data", format!("step {}: open attempt during close(): {}", step, d));
											return;
										}
									}
									tokio::task::yield_now().await;
									tokio::time::advance(std::time::Duration::from_millis(60)).await;
									if polls > 2000 {
										break Err(surrealkv::Error::Other("close() did not finish".into()));
									}
								}
							};
							if let Err(e) = res {
								fail(&mut j, "close_failed", e.to_string());
								return;
							}
							if cancelled {
								j.count("closes_abandoned_midway", 1);
								for _ in 0..rng.below(3) {
									tokio::task::yield_now().await;
								}
								if let Err(e) = t.close().await {
									fail(&mut j, "close_failed", format!("step {}: close() after an abandoned close() failed: {}", step, e));
									return;
								}
							}
							if rng.chance(1, 2) {
								zombies.push(t);
								j.count("closed_handles_kept", 1);
							} else {
								drop(t);
							}
							if holder == Some(i) {
								holder = None;
							}
							j.count("closes", 1);
						}
					}
					16 | 17 => {
						// a FAILED open (commit log damaged, strict recovery mode) is not a live
						// instance: once the damage is undone the directory must open again in
						// this process
						if holder.is_some() || pending_drop || !zombies.is_empty() {
							continue;
						}
						let wal_dir = dir.join("wal");
						let seg = std::fs::read_dir(&wal_dir).ok().and_then(|rd| {
							let mut v: Vec<std::path::PathBuf> = rd.flatten().map(|e| e.path()).filter(|p| p.extension().map(|x| x == "wal").unwrap_or(false)).collect();
							v.sort();
							v.into_iter().rev().find(|p| std::fs::metadata(p).map(|m| m.len() > 40).unwrap_or(false))
						});
						let seg = match seg {
							Some(s) => s,
							None => continue,
						};
						let orig = std::fs::read(&seg).unwrap_or_default();
						let mut bad = orig.clone();
						let at = 8 + (rng.below((bad.len() - 16) as u64) as usize);
						bad[at] ^= 0x5a;
						let _ = std::fs::write(&seg, &bad);
						let mut strict = opts.clone();
						strict.absolute_consistency = true;
						let r = open_store(&strict, &dir);
						match r {
							Ok(t) => {
								// damage not detected by this open (e.g. in padding): not our subject
								let _ = t.close().await;
								drop(t);
							}
							Err(_) => {
								j.count("failed_opens", 1);
							}
						}
						let _ = std::fs::write(&seg, &orig);
						// half of the time the next open follows at once ("strict first, then
						// tolerant" fallback code does that): the failed open must have let go of
						// the directory by the time it returned, not when the runtime gets round
						// to reaping its tasks
						if rng.chance(1, 2) {
							for _ in 0..3 {
								tokio::task::yield_now().await;
							}
						}
						match open_store(&opts, &dir) {
							Ok(t) => {
								let _ = t.close().await;
								drop(t);
								j.count("opens_after_failed_open", 1);
							}
							Err(e) => {
								fail(&mut j, "not_reopenable", format!("step {}: an open that FAILED (damaged commit log, strict mode) left the directory unopenable in this process although no instance is live: {}", step, e));
								return;
							}
						}
					}
					14 | 15 => {
						// an open attempt while the holder is in the MIDDLE of appending a
						// multi-block record to its commit log (between two write(2) calls of
						// one append): it must be refused and must not touch the log
						let h = match holder {
							Some(h) => h,
							None => continue,
						};
						let t = match slots[h].as_ref() {
							Some(t) => t,
							None => continue,
						};
						let attempt: std::rc::Rc<std::cell::RefCell<Option<(bool, Vec<Op>)>>> = Default::default();
						{
							let attempt = attempt.clone();
							let (opts2, dir2) = (opts.clone(), dir.clone());
							let mut wal_writes = 0u32;
							let at_write = rng.range(1, 2) as u32;
							ip::set_io_hook(Some(Box::new(move |class: &str| {
								if class != "wal" || attempt.borrow().is_some() {
									return;
								}
								wal_writes += 1;
								if wal_writes == at_write {
									let from = ip::op_count();
									let r = open_store(&opts2, &dir2);
									let ops = ip::ops_since(from);
									*attempt.borrow_mut() = Some((r.is_ok(), ops));
								}
							})));
						}
						written += 1;
						let big = vec![b'm'; rng.range(70_000, 100_000) as usize];
						let mut txn = t.begin().unwrap();
						let _ = txn.set(format!("s{}", written).as_bytes(), big.as_slice());
						let r = txn.commit().await;
						ip::set_io_hook(None);
						if let Err(e) = r {
							fail(&mut j, "commit_failed", e.to_string());
							return;
						}
						if let Some((opened, ops)) = attempt.borrow_mut().take() {
							j.count("mid_append_open_attempts", 1);
							if std::env::var("SKV_DEBUG").is_ok() {
								eprintln!("mid-append attempt: opened={} ops={:?}", opened, ops.iter().map(|o| o.short()).collect::<Vec<_>>());
							}
							if opened {
								fail(&mut j, "double_open", format!("step {}: an open attempt made in the middle of the holder's commit-log append succeeded", step));
								return;
							}
							if let Err(d) = only_lock_touched(&ops) {
								fail(&mut j, "refused_open_touched_data", format!("step {}: open attempt in the middle of the holder's commit-log append: {}", step, d));
								return;
							}
						}
						let rtxn = t.begin().unwrap();
						match rtxn.get(format!("s{}", written).as_bytes()) {
							Ok(Some(v)) if v == big => {}
							other => {
								fail(&mut j, "data_lost", format!("step {}: the value committed around a refused open reads back {:?}", step, other.map(|o| o.map(|v| v.len()))));
								return;
							}
						}
					}
					10 => {
						// idle: let spawned work (the close a dropped handle spawns) run
						for _ in 0..3 {
							tokio::task::yield_now().await;
							tokio::time::advance(std::time::Duration::from_millis(60)).await;
						}
						j.count("idles", 1);
					}
					13 => {
						// the holder uses the rest of its public surface that rearranges the
						// directory - flush, compaction, checkpoint and restore from it - and the
						// directory must stay refused to a second opener throughout its lifetime
						let h = match holder {
							Some(h) => h,
							None => continue,
						};
						let t = slots[h].as_ref().unwrap();
						let what = rng.below(4);
						match what {
							0 => {
								let _ = t.verif_flush_all();
							}
							1 => {
								let _ = t.verif_flush_all();
								let _ = t.verif_compact_round();
							}
							_ => {
								let cp = dir.with_extension(format!("cp{}", step));
								let _ = std::fs::remove_dir_all(&cp);
								if let Err(e) = t.create_checkpoint(&cp) {
									fail(&mut j, "checkpoint_failed", format!("step {}: {}", step, e));
									return;
								}
								if what == 3 {
									if let Err(e) = t.restore_from_checkpoint(&cp) {
										fail(&mut j, "restore_failed", format!("step {}: {}", step, e));
										return;
									}
									j.count("restores_while_held", 1);
								}
								let _ = std::fs::remove_dir_all(&cp);
							}
						}
						j.count("maintenance_while_held", 1);
						let from = ip::op_count();
						let r = open_store(&opts, &dir);
						let ops = ip::ops_since(from);
						match r {
							Ok(_t) => {
								fail(&mut j, "double_open", format!("step {}: the directory was opened a second time after its holder {} (still live)", step, ["flushed", "flushed and compacted", "took a checkpoint", "restored a checkpoint"][what as usize]));
								return;
							}
							Err(_) => {
								j.count("refused_opens", 1);
								if let Err(d) = only_lock_touched(&ops) {
									fail(&mut j, "refused_open_touched_data", format!("step {}: {}", step, d));
									return;
								}
							}
						}
						// the holder still serves everything acknowledged so far
						let rtxn = t.begin().unwrap();
						for w in 1..=written {
							match rtxn.get(format!("s{}", w).as_bytes()) {
								Ok(Some(_)) => {}
								other => {
									fail(&mut j, "data_lost", format!("step {}: key s{} reads {:?} after maintenance by the holder", step, w, other.map(|o| o.is_some())));
									return;
								}
							}
						}
					}
					11 | 12 => {
						// a handle closed earlier is closed again / dropped
						if !zombies.is_empty() {
							let z = zombies.remove(rng.below(zombies.len() as u64) as usize);
							if rng.chance(1, 2) {
								let _ = z.close().await;
								zombies.push(z);
								j.count("closed_again", 1);
							} else {
								drop(z);
								for _ in 0..3 {
									tokio::task::yield_now().await;
								}
								j.count("closed_handle_dropped", 1);
							}
						}
					}
					_ => {
						// drop without close
						if let Some(t) = slots[i].take() {
							// sometimes a transaction of the instance outlives the handle by a few
							// turns (it holds a reference to the store's core, not to the handle):
							// giving up the handle must still release the directory
							let outliving = if rng.chance(1, 2) { t.begin().ok() } else { None };
							drop(t);
							if outliving.is_some() {
								j.count("drops_with_live_transaction", 1);
								for _ in 0..2 {
									tokio::task::yield_now().await;
								}
							}
							drop(outliving);
							if holder == Some(i) {
								holder = None;
								pending_drop = true;
							}
							j.count("drops", 1);
							if rng.chance(1, 2) {
								for _ in 0..5 {
									tokio::task::yield_now().await;
									tokio::time::advance(std::time::Duration::from_millis(60)).await;
								}
							}
						}
					}
				}
			}
			for s in slots.iter_mut() {
				if let Some(t) = s.take() {
					let _ = t.close().await;
				}
			}
			zombies.clear();
			for _ in 0..5 {
				tokio::task::yield_now().await;
			}
		});
		drop(rt);
		let _ = ip::end_session();
		ip::enable_clock(false);
		ip::enable_rand(false, 0);
		let _ = std::fs::remove_dir_all(&dir);
		j
	});
	match r {
		Ok(x) => {
			j = x;
		}
		Err(msg) => {
			let _ = ip::end_session();
			ip::enable_clock(false);
			ip::enable_rand(false, 0);
			let m = if msg.is_empty() { LAST_PANIC.lock().map(|g| g.clone()).unwrap_or_default() } else { msg };
			j.violation = Some(Violation::new("panic", m));
		}
	}
	j.evaluations = 1;
	j.nontrivial = j.counters.get("refused_opens").copied().unwrap_or(0) > 0;
	j.sig = plan.case_seed;
	j
}

/// Child process: open the store and hold it until stdin closes (or we are killed).
pub fn lock_child(dir: &str) -> i32 {
	let rt = tokio::runtime::Builder::new_current_thread().enable_time().build().unwrap();
	let opts = StoreOpts::default();
	let _guard = rt.enter();
	match open_store(&opts, std::path::Path::new(dir)) {
		Ok(t) => {
			println!("OPEN");
			std::io::stdout().flush().ok();
			let mut line = String::new();
			let _ = std::io::stdin().read_line(&mut line);
			if line.trim() == "close" {
				let _ = rt.block_on(t.close());
				println!("CLOSED");
				std::io::stdout().flush().ok();
				return 0;
			}
			// "hang": wait to be killed
			loop {
				std::thread::sleep(std::time::Duration::from_secs(3600));
			}
		}
		Err(e) => {
			println!("REFUSED {}", e);
			std::io::stdout().flush().ok();
			1
		}
	}
}

fn cross_process(plan: &Plan) -> Judged {
	let mut j = Judged::default();
	let mut rng = Rng::new(plan.case_seed);
	let dir = fresh_dir("xlock");
	std::fs::create_dir_all(&dir).ok();
	let exe = std::env::current_exe().unwrap();
	let fail = |j: &mut Judged, c: &str, d: String| {
		if j.violation.is_none() {
			j.violation = Some(Violation::new(c, d));
		}
	};
	let spawn = || Command::new(&exe).arg("lock-child").arg(&dir).stdin(Stdio::piped()).stdout(Stdio::piped()).stderr(Stdio::null()).spawn();
	let read_line = |c: &mut std::process::Child| -> String {
		let mut l = String::new();
		if let Some(o) = c.stdout.as_mut() {
			let _ = BufReader::new(o).read_line(&mut l);
		}
		l.trim().to_string()
	};
	for round in 0..2 {
		let mut a = match spawn() {
			Ok(c) => c,
			Err(e) => {
				fail(&mut j, "harness", e.to_string());
				return j;
			}
		};
		let la = read_line(&mut a);
		if la != "OPEN" {
			fail(&mut j, "not_reopenable", format!("round {}: first opener in a fresh process was refused: {}", round, la));
			let _ = a.kill();
			let _ = a.wait();
			break;
		}
		// a second process must be refused
		let mut b = spawn().unwrap();
		let lb = read_line(&mut b);
		let _ = b.kill();
		let _ = b.wait();
		if !lb.starts_with("REFUSED") {
			fail(&mut j, "double_open", format!("round {}: a second process opened the directory while the first holds it: {}", round, lb));
			let _ = a.kill();
			let _ = a.wait();
			break;
		}
		j.count("refused_opens", 1);
		// in-process opener must be refused as well
		let prt = tokio::runtime::Builder::new_current_thread().enable_time().build().unwrap();
		let _g = prt.enter();
		if open_store(&StoreOpts::default(), &dir).is_ok() {
			fail(&mut j, "double_open", format!("round {}: this process opened the directory while a child holds it", round));
			let _ = a.kill();
			let _ = a.wait();
			break;
		}
		if rng.chance(1, 2) {
			// process death
			let _ = a.kill();
			let _ = a.wait();
			j.count("kills", 1);
		} else {
			if let Some(i) = a.stdin.as_mut() {
				let _ = i.write_all(b"close\n");
			}
			let _ = a.wait();
			j.count("closes", 1);
		}
		// the directory can be opened again at once
		let mut c = spawn().unwrap();
		let lc = read_line(&mut c);
		if lc != "OPEN" {
			fail(&mut j, "not_reopenable", format!("round {}: after the holder died / closed, a new process is refused: {}", round, lc));
		}
		if let Some(i) = c.stdin.as_mut() {
			let _ = i.write_all(b"close\n");
		}
		let _ = c.wait();
		if j.violation.is_some() {
			break;
		}
	}
	let _ = std::fs::remove_dir_all(&dir);
	j.evaluations = 1;
	j.nontrivial = true;
	j.sig = plan.case_seed ^ 0xc;
	j.count("cross_process_legs", 1);
	j
}

fn judge(plan: &Plan, _tier: Tier) -> Judged {
	if plan.params.get("cross_process").copied().unwrap_or(0) == 1 {
		cross_process(plan)
	} else {
		in_process(plan)
	}
}

pub fn c19() -> CheckDef {
	CheckDef {
		id: "C19",
		level: "exploration",
		rule: "a case = an opener plan of 3-9 steps over three opener slots on one directory (open, close, drop without close, with and without letting the runtime run the dropped instance's spawned close) in one process on the traced disk; every 40th case is a cross-process leg: a child process holds the store, a second child and the parent must be refused, the holder is SIGKILLed or closed, a new process must open at once. Oracle: while an instance is live every other open fails and the op log between the start and the failure of a refused open contains nothing but the lock file; with no live instance an open succeeds (after drop: once the runtime has run the spawned close) and sees the keys of all earlier sessions. non-trivial = at least one refused open; distinct = case seeds",
		assumptions: &["in-process 'death' is not simulated; process death is covered by the SIGKILL legs", "the lock file's informational PID content is not judged"],
		components: "real: lockfile (fs2 flock), Tree open / close / Drop, tokio runtime; simulated: opener order, runtime turns, disk op log; stubbed: nothing",
		cases: |t| match t {
			Tier::Quick => 12000,
			Tier::Thorough => 120000,
		},
		gen,
		judge,
		shrink_budget: 0,
	}
}
