//! C15: a failed commit leaves no trace and does not poison later commits. Workloads are
//! re-run with one injected I/O fault (kind × position × transient/persistent), continue
//! committing, then crash and recover.

use std::collections::BTreeMap;

use crate::case::{build_image, fresh_dir, run_session, End};
use crate::disk::{CrashModel, FaultAction, FaultAt, FaultKind, FaultSpec, Image, Op, Tear};
use crate::exec::Violation;
use crate::framework::{CheckDef, Judged, Tier};
use crate::gen::*;
use crate::model::{ModeS, Status};
use crate::plan::*;
use crate::recovery::recover_check;
use crate::rng::Rng;

use super::crash::merge_stats;

fn gen(case_seed: u64, _case: u64, tier: Tier) -> Plan {
	let mut rng = Rng::new(case_seed);
	let mut opts = random_opts(&mut rng);
	opts.memtable = *rng.pick(&[1536usize, 2048, 4096]);
	if rng.chance(1, 4) {
		with_vlog(&mut rng, &mut opts);
	}
	let nkeys = rng.range(4, 10) as u16;
	let keys = key_universe(&mut rng, nkeys as usize, false);
	let nkeys = keys.len() as u16;
	let mut tags = TagGen(0);
	// a quarter of the cases: one long commit-log segment (big memtable, no rotation, a few
	// kilobytes per commit) so that the log crosses several 32 KiB block boundaries AFTER the
	// injected failure - the writer's framing state must have survived it
	let long_segment = rng.chance(1, 4);
	if long_segment {
		opts.memtable = 400_000;
	}
	let budget = txn_budget(opts.memtable);
	let n = match tier {
		Tier::Quick => rng.range(5, 25),
		Tier::Thorough => rng.range(5, 40),
	};
	let n = if long_segment { n + 30 } else { n };
	let mut steps = Vec::new();
	let conflicts = rng.chance(1, 2);
	for _ in 0..n {
		if conflicts && rng.chance(1, 3) {
			// a commit that fails with a conflict: the loser writes several keys, one of
			// them contended; whatever it touched must not stand in the way of later commits
			let hot = rng.below(nkeys as u64) as u16;
			steps.push(Step::Begin { a: 1, mode: ModeS::ReadWrite });
			steps.push(Step::Begin { a: 2, mode: ModeS::ReadWrite });
			steps.push(Step::Set { a: 1, k: hot, v: tags.next(12), ts: None });
			steps.push(Step::Commit { a: 1, sync: false });
			let n_w = rng.range(1, 4);
			let at_hot = rng.below(n_w);
			for i in 0..n_w {
				let k = if i == at_hot { hot } else { rng.below(nkeys as u64) as u16 };
				steps.push(Step::Set { a: 2, k, v: tags.next(12), ts: None });
			}
			steps.push(Step::Commit { a: 2, sync: false });
			steps.push(Step::Probe);
			continue;
		}
		if long_segment {
			steps.push(Step::Begin { a: 0, mode: ModeS::ReadWrite });
			for _ in 0..rng.range(1, 2) {
				steps.push(Step::Set { a: 0, k: rng.below(nkeys as u64) as u16, v: tags.next(rng.range(400, 3000) as u32), ts: None });
			}
			steps.push(Step::Commit { a: 0, sync: rng.chance(1, 5) });
			if rng.chance(1, 6) {
				steps.push(Step::Probe);
			}
			continue;
		}
		write_txn(&mut rng, 0, nkeys, &mut tags, 3, 30, budget, &mut steps);
		steps.push(Step::Probe);
		if rng.chance(1, 5) {
			steps.push(physical_step(&mut rng, false));
		}
	}
	let mut params = BTreeMap::new();
	params.insert("fault_permille".to_string(), rng.below(1000) as i64);
	params.insert("fault_kind".to_string(), rng.below(6) as i64);
	params.insert("fault_persistent".to_string(), rng.below(2) as i64);
	params.insert("power_loss".to_string(), rng.below(2) as i64);
	Plan {
		check: "C15".into(),
		case_seed,
		opts,
		keys,
		steps,
		windows: vec![],
		async_yields: false,
		gate_tasks: false,
		faults: vec![],
		crash: None,
		params,
		twin: None,
	}
}

fn judge(plan: &Plan, _tier: Tier) -> Judged {
	let mut j = Judged::default();
	// 1. fault-free dry run: count the mutating calls
	let root0 = fresh_dir("f0");
	let dry = run_session(plan, &root0, End::Close, None);
	let _ = std::fs::remove_dir_all(&root0);
	if let Some(v) = &dry.outcome.violation {
		j.count(&format!("other_property.{}", v.class), 1);
		return j;
	}
	let n_calls = dry.outcome.ops.iter().filter(|o| !o.is_marker() && !matches!(o, Op::FsyncDir { .. })).count() as u64;
	if n_calls < 5 {
		return j;
	}
	// skip the calls of the initial open (a failing open is not a failed commit)
	let first_commit = dry.outcome.ops.iter().position(|o| matches!(o, Op::Marker { text } if text.starts_with("invoke commit"))).unwrap_or(0);
	let open_calls = dry.outcome.ops[..first_commit].iter().filter(|o| !o.is_marker() && !matches!(o, Op::FsyncDir { .. })).count() as u64;
	let span = n_calls.saturating_sub(open_calls).max(1);
	let at = open_calls + 1 + (plan.params.get("fault_permille").copied().unwrap_or(0) as u64 * span / 1000).min(span - 1);
	let kind = plan.params.get("fault_kind").copied().unwrap_or(0);
	// EINTR is only ever transient (a persistent EINTR is an endless retry loop by definition)
	let persistent = plan.params.get("fault_persistent").copied().unwrap_or(0) == 1 && kind != 3;
	let (action, name) = match kind {
		0 => (FaultAction::Eio, "EIO"),
		1 => (FaultAction::Enospc, "ENOSPC"),
		2 => (FaultAction::Short(3), "short write then EIO"),
		3 => (FaultAction::Eintr, "EINTR"),
		4 => (FaultAction::Emfile, "EMFILE"),
		_ => (FaultAction::Eio, "EIO"),
	};
	let mut p = plan.clone();
	p.faults = vec![FaultSpec { at: FaultAt::Call(at), action, persistent, spent: false }];
	j.context.insert("fault".into(), serde_json::json!(format!("{} at mutating call {} of {} ({})", name, at, n_calls, if persistent { "persistent" } else { "transient" })));

	// 2. the faulted run, ending in a crash
	let root = fresh_dir("f1");
	let s = run_session(&p, &root, End::Crash, None);
	let out = s.outcome;
	merge_stats(&mut j, &out.stats);
	j.evaluations = 1;
	let fired = out.fired.len();
	j.count("faults_fired", fired as u64);
	for f in &out.fired {
		j.count(&format!("fault.{:?}.{}.{}", f.1, f.2, name.replace(' ', "_")), 1);
	}
	let failed = out.model.commits.iter().filter(|c| c.status == Status::Failed).count() + out.failed_commits.len();
	j.count("failed_commits", out.failed_commits.len() as u64);
	j.nontrivial = fired > 0 && out.stats.commits_ok >= 1;
	j.sig = crate::disk::digest(&out.ops) ^ at;
	let fault_desc = j.context.get("fault").and_then(|x| x.as_str()).unwrap_or("").to_string();
	if let Some(v) = out.violation {
		let owned = matches!(v.class.as_str(), "read_mismatch" | "scan_mismatch" | "panic" | "no_progress" | "hang" | "horizon_splits_commit" | "horizon_behind_ack" | "commit_without_seq");
		if owned {
			j.violation = Some(Violation { class: v.class, detail: format!("[{}] {}", fault_desc, v.detail), explained: v.explained });
			let _ = std::fs::remove_dir_all(&root);
			return j;
		}
		j.count(&format!("other_property.{}", v.class), 1);
		let _ = std::fs::remove_dir_all(&root);
		return j;
	}
	let _ = failed;
	// a commit refused although nothing it conflicts with was sequenced after it began: an
	// earlier failed commit stands in the way of later ones
	if let Some(v) = super::session::conflict_check(&out.model, &out.failed_commits, &p) {
		if v.class == "spurious_conflict" || v.class == "spurious_retry" {
			j.violation = Some(Violation { class: v.class, detail: format!("[{}] {}", fault_desc, v.detail), explained: None });
			let _ = std::fs::remove_dir_all(&root);
			return j;
		}
		j.count(&format!("other_property.{}", v.class), 1);
	}
	j.count("conflict_failures", out.failed_commits.iter().filter(|f| f.class == "Conflict").count() as u64);
	// 3. crash at the end (and at the point right after the fault fired): every commit
	// acknowledged - before or after the fault - is recovered, failed ones are absent
	let base = Image::default();
	let ops = out.ops;
	let model = out.model;
	if let Ok(f) = std::env::var("SKV_DUMP") {
		use std::io::Write;
		let mut fh = std::fs::File::create(&f).unwrap();
		for e in &out.events {
			writeln!(fh, "ev {}", e).ok();
		}
		for f in &out.fired {
			writeln!(fh, "fired {:?}", f).ok();
		}
		for (i, op) in ops.iter().enumerate() {
			let s = match op {
				Op::Write { ino, off, data } => format!("write ino={} off={} len={}", ino, off, data.len()),
				o => o.short(),
			};
			writeln!(fh, "op {} {}", i, s).ok();
		}
	}
	let mut points = vec![ops.len()];
	if let Some(f) = out.fired.first() {
		points.push((f.0 + 1).min(ops.len()));
	}
	let use_pl = plan.params.get("power_loss").copied().unwrap_or(0) == 1;
	for n in points {
		for cm in if use_pl { vec![CrashModel::Process, CrashModel::PowerLoss] } else { vec![CrashModel::Process] } {
			let mut lo = 0;
			let mut hi = 0;
			for c in &model.commits {
				if c.status == Status::Failed {
					continue;
				}
				if c.op_at_seq <= n {
					hi = hi.max(c.last_seq);
				}
				if c.status == Status::Acked {
					if let Some(a) = c.op_at_ack {
						let durable = cm == CrashModel::Process || c.durable_sync;
						if a <= n && durable {
							lo = lo.max(c.last_seq);
						}
					}
				}
			}
			// an fsync that failed leaves the bytes since the last successful sync volatile:
			// the disk model already treats them as unsynced (no Fsync op was logged)
			let dir = match build_image(&base, &ops, n, cm, &Tear::default(), "fimg") {
				Ok(d) => d,
				Err(_) => continue,
			};
			// F5 narrowed: the record of a failed commit sits in log segment S. The unchanged
			// code retires S once the memtables that can hold data logged in S - the one created
			// for S and, for a commit that straddled a rotation, the one for S+1 - are flushed.
			// After a completed flush of a memtable with WAL number > S (flushes go oldest
			// first) a process-crash image must not bring the failed commit back any more.
			let mut m2 = model.clone();
			if cm == CrashModel::Process {
				let flushed_upto: Option<u64> = ops[..n.min(ops.len())]
					.iter()
					.filter_map(|o| match o {
						Op::Marker { text } => text.strip_prefix("flush done wal=").and_then(|x| x.parse::<u64>().ok()),
						_ => None,
					})
					.max();
				if let Some(f) = flushed_upto {
					for c in m2.commits.iter_mut() {
						if c.status == Status::Failed && c.logged_wal.map(|s| f > s).unwrap_or(false) {
							c.ghost_ok = false;
						}
					}
				}
			}
			let r = recover_check(&plan.opts, &dir, &m2, lo, hi.max(lo), &plan.keys, false, plan.case_seed ^ n as u64, false, false);
			let _ = std::fs::remove_dir_all(&dir);
			j.evaluations += 1;
			if let Some(v) = r.violation {
				if std::env::var("SKV_DEBUG").is_ok() {
					for c in &model.commits {
						eprintln!("  commit txn{} {}..{} {:?} logged={:?} applied={:?} writes={:?}", c.txn, c.first_seq, c.last_seq, c.status, c.logged_wal, c.applied_wal, c.writes.iter().map(|w| crate::exec::hex(&w.key)).collect::<Vec<_>>());
					}
					eprintln!("  lo={} hi={} got={:?} explained={:?}", lo, hi, r.contents.keys().map(|k| crate::exec::hex(k)).collect::<Vec<_>>(), v.explained);
				}
				let mut v = v;
				if v.explained.is_none() && crate::recovery::index_torn_by_power_loss(&plan.opts, cm == CrashModel::PowerLoss, &v) {
					v.explained = Some("version_index_torn_by_power_loss".into());
				}
				if v.explained.is_some() {
					j.violation = Some(Violation { class: v.class, detail: format!("[{}] crash point {} {:?}: {}", fault_desc, n, cm, v.detail), explained: v.explained });
					continue;
				}
				// does the recovered state contain writes of a failed commit?
				let mut class = v.class.clone();
				if class == "not_prefix" || class == "future_data" {
					let failed_vals: Vec<&Vec<u8>> = model.commits.iter().filter(|c| c.status == Status::Failed).flat_map(|c| c.writes.iter().filter_map(|w| w.value.as_ref())).collect();
					if r.contents.values().any(|v| failed_vals.contains(&v)) {
						class = "failed_commit_recovered".into();
					}
				}
				let owned = matches!(class.as_str(), "acked_lost" | "not_prefix" | "failed_commit_recovered" | "panic" | "open_failed");
				if owned {
					j.violation = Some(Violation::new(&class, format!("[{}] crash point {} {:?}: {}", fault_desc, n, cm, v.detail)));
					let _ = std::fs::remove_dir_all(&root);
					return j;
				}
				j.count(&format!("other_property.{}", class), 1);
			}
		}
	}
	let _ = std::fs::remove_dir_all(&root);
	j
}

pub fn c15() -> CheckDef {
	CheckDef {
		id: "C15",
		level: "fault_enumeration",
		rule: "a case = a short write workload (5-25 commits, 30% with immediate durability, rotation and flush included, a fresh-reader probe after every commit) first run fault-free to count its mutating libc calls, then re-run with ONE injected fault at a position drawn uniformly over the calls after the initial open: write/fsync/create/rename/unlink/truncate failing with EIO, ENOSPC, EMFILE, a short write followed by EIO, or EINTR, transient (once) or persistent (from then on); the workload continues, then the disk is frozen and images are taken at the end and right after the fault (process crash; power loss in half the cases) and recovered. Oracle: probes never see writes of a commit that returned an error; no panic, no hang; after recovery every commit acknowledged before or after the fault is present and no failed commit's writes are. evaluations = faulted runs + recovery images; non-trivial = the fault fired and at least one commit succeeded; distinct = op-log digest ^ fault position",
		assumptions: &["one fault per run (plus its persistence); positions sampled uniformly across cases rather than enumerated per workload", "a failing initial open is outside the property (no commit involved)", "after a failed fsync the bytes since the last successful sync count as unsynced in the power-loss model"],
		components: "real: all of surrealkv incl. error paths of WAL writer, commit pipeline, flush, manifest; simulated: the failing libc call (interposer), crash images, clock, randomness; stubbed: nothing",
		cases: |t| match t {
			Tier::Quick => 12000,
			Tier::Thorough => 160000,
		},
		gen,
		judge,
		shrink_budget: 80,
	}
}
