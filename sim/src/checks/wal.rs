//! C12: commit-log framing, damage and repair — component level, real Wal / Reader /
//! repair code on files at rest: record-length sequences × sessions × truncation and
//! damage positions × repair × further appends.

use std::collections::BTreeMap;
use std::path::Path;

use surrealkv::verif::{wal_read_segment_with_offsets, wal_repair_segment, VerifWal, WalReadEnd};

use crate::case::{fresh_dir, on_fresh_thread, LAST_PANIC};
use crate::exec::{open_store, Violation};
use crate::interpose as ip;
use crate::framework::{CheckDef, Judged, Tier};
use crate::plan::*;
use crate::rng::Rng;

const BLOCK: u64 = 32768;
const HDR: u64 = 7;

fn record(tag: u32, len: usize) -> Vec<u8> {
	let mut v = Vec::with_capacity(len);
	// some records start with the bytes 0 / 1 (valid compression-type codes)
	let head = match tag % 5 {
		0 => format!("\u{0}r{}.", tag).into_bytes(),
		1 => format!("\u{1}r{}.", tag).into_bytes(),
		_ => format!("r{}.", tag).into_bytes(),
	};
	let mut x = tag as u64 ^ 0x77;
	for i in 0..len {
		if i < head.len() {
			v.push(head[i]);
		} else {
			x = x.wrapping_mul(6364136223846793005).wrapping_add(1442695040888963407);
			v.push((x >> 33) as u8);
		}
	}
	v
}

fn gen(case_seed: u64, _case: u64, tier: Tier) -> Plan {
	let mut p = Plan {
		check: "C12".into(),
		case_seed,
		opts: StoreOpts::default(),
		keys: vec![],
		steps: vec![],
		windows: vec![],
		async_yields: false,
		gate_tasks: false,
		faults: vec![],
		crash: None,
		params: BTreeMap::new(),
		twin: None,
	};
	p.params.insert("positions".into(), match tier {
		Tier::Quick => 500,
		Tier::Thorough => 3000,
	});
	p
}

struct Built {
	records: Vec<Vec<u8>>,
	file: Vec<u8>,
}

/// Append the generated records over several sessions; return them and the segment.
fn build(rng: &mut Rng, dir: &Path, compressed: bool) -> Result<Built, String> {
	std::fs::create_dir_all(dir).map_err(|e| e.to_string())?;
	let mut records: Vec<Vec<u8>> = Vec::new();
	let n = rng.range(1, 14);
	let sessions = rng.range(1, 3);
	let mut tag = 0u32;
	let mut approx_off: u64 = if compressed { HDR + 1 } else { 0 };
	let mut wal = VerifWal::open(dir, compressed).map_err(|e| e.to_string())?;
	for i in 0..n {
		tag += 1;
		let len = match rng.below(10) {
			0 => 1,
			1 => rng.range(2, 20),
			2 | 3 => rng.range(20, 400),
			4 => rng.range(400, 5000),
			5 => rng.range(BLOCK - 40, BLOCK + 40),
			6 => rng.range(2 * BLOCK, 3 * BLOCK),
			_ => {
				// leave 0..7 bytes before the block boundary after this record
				let used = approx_off % BLOCK;
				let left = BLOCK - used;
				let d = rng.below(8);
				if left > HDR + d + 1 {
					left - HDR - d
				} else {
					rng.range(1, 300)
				}
			}
		} as usize;
		let rec = record(tag, len);
		wal.append(&rec).map_err(|e| format!("append failed: {}", e))?;
		// physical size only approximates for compressed logs
		let frags = (len as u64 + BLOCK - HDR - 1) / (BLOCK - HDR);
		approx_off += len as u64 + HDR * frags.max(1);
		records.push(rec);
		if sessions > 1 && i + 1 < n && rng.chance(1, 4) {
			wal.close().map_err(|e| e.to_string())?;
			drop(wal);
			wal = VerifWal::open(dir, compressed).map_err(|e| format!("reopen for append failed: {}", e))?;
		}
	}
	wal.close().map_err(|e| e.to_string())?;
	drop(wal);
	let file = std::fs::read(dir.join("00000000000000000000.wal")).map_err(|e| e.to_string())?;
	Ok(Built { records, file })
}

fn is_prefix(got: &[(Vec<u8>, u64)], want: &[Vec<u8>]) -> Result<(), String> {
	if got.len() > want.len() {
		return Err(format!("read {} records, only {} were appended", got.len(), want.len()));
	}
	for (i, (g, _)) in got.iter().enumerate() {
		if g != &want[i] {
			return Err(format!("record #{} read back differs from what was appended (len {} vs {})", i, g.len(), want[i].len()));
		}
	}
	Ok(())
}

fn run_case(plan: &Plan) -> Judged {
	let mut j = Judged::default();
	let mut rng = Rng::new(plan.case_seed);
	let compressed = rng.chance(1, 3);
	let dir = fresh_dir("wal");
	let seg = dir.join("00000000000000000000.wal");
	let fail = |j: &mut Judged, class: &str, d: String| {
		j.violation = Some(Violation::new(class, d));
	};
	let built = match build(&mut rng, &dir, compressed) {
		Ok(b) => b,
		Err(e) => {
			fail(&mut j, "append_failed", e);
			let _ = std::fs::remove_dir_all(&dir);
			return j;
		}
	};
	let lens: Vec<usize> = built.records.iter().map(|r| r.len()).collect();
	let ctx = format!("records {:?} compressed={} file_len={}", lens, compressed, built.file.len());
	// 1. pristine read
	let (base, end) = match wal_read_segment_with_offsets(&seg) {
		Ok(x) => x,
		Err(e) => {
			fail(&mut j, "read_failed", e.to_string());
			return j;
		}
	};
	j.evaluations += 1;
	if base.iter().map(|r| &r.0).ne(built.records.iter()) || end != WalReadEnd::Eof {
		fail(&mut j, "roundtrip", format!("undamaged log does not read back: got {} of {} records, end {:?}; {}", base.len(), built.records.len(), end, ctx));
		let _ = std::fs::remove_dir_all(&dir);
		return j;
	}
	let ends: Vec<u64> = base.iter().map(|r| r.1).collect();
	j.nontrivial = built.records.len() >= 2;
	j.sig = crate::disk::digest(&[crate::disk::Op::Write { ino: 0, off: 0, data: built.file.clone() }]);
	j.count("records", built.records.len() as u64);
	if built.file.len() as u64 > BLOCK {
		j.count("multi_block_logs", 1);
	}

	// 2. damage positions
	let flen = built.file.len();
	let budget = plan.params.get("positions").copied().unwrap_or(260) as usize;
	let mut positions: Vec<usize> = Vec::new();
	for e in ends.iter().chain(std::iter::once(&0u64)) {
		for d in -9i64..=9 {
			let p = *e as i64 + d;
			if p >= 0 && (p as usize) <= flen {
				positions.push(p as usize);
			}
		}
	}
	let mut b = BLOCK as usize;
	while b <= flen {
		for d in -9i64..=9 {
			let p = b as i64 + d;
			if p >= 0 && (p as usize) <= flen {
				positions.push(p as usize);
			}
		}
		b += BLOCK as usize;
	}
	while positions.len() < budget {
		positions.push(rng.below(flen as u64 + 1) as usize);
	}
	positions.sort();
	positions.dedup();
	if positions.len() > budget {
		// keep a deterministic subset
		let mut keep = Vec::new();
		let step = positions.len() as f64 / budget as f64;
		let mut x = 0.0;
		while (x as usize) < positions.len() {
			keep.push(positions[x as usize]);
			x += step;
		}
		positions = keep;
	}

	let work = dir.join("dmg");
	for (pi, &pos) in positions.iter().enumerate() {
		for kind in 0..3 {
			// 0 = truncate at pos, 1 = bit flip at pos, 2 = byte overwrite at pos
			if kind > 0 && pos >= flen {
				continue;
			}
			if kind == 2 && pi % 3 != 0 {
				continue;
			}
			let mut data = built.file.clone();
			let what = match kind {
				0 => {
					data.truncate(pos);
					format!("truncated to {} bytes", pos)
				}
				1 => {
					let bit = 1u8 << (pos % 8);
					data[pos] ^= bit;
					format!("bit {:#x} flipped at offset {}", bit, pos)
				}
				_ => {
					let nv = if data[pos] == 0 { 0xff } else { 0x00 };
					data[pos] = nv;
					format!("byte at offset {} overwritten with {:#x}", pos, nv)
				}
			};
			let _ = std::fs::remove_dir_all(&work);
			std::fs::create_dir_all(&work).ok();
			let wseg = work.join("00000000000000000000.wal");
			std::fs::write(&wseg, &data).ok();
			j.evaluations += 1;
			j.count(match kind {
				0 => "damage.truncation",
				1 => "damage.bit_flip",
				_ => "damage.byte_overwrite",
			}, 1);
			let (got, end) = match wal_read_segment_with_offsets(&wseg) {
				Ok(x) => x,
				Err(e) => {
					fail(&mut j, "read_failed", format!("{}: {}; {}", what, e, ctx));
					return j;
				}
			};
			// records lying wholly before the damage must be there
			let must = ends.iter().filter(|e| (**e as usize) <= pos).count();
			if let Err(d) = is_prefix(&got, &built.records) {
				fail(&mut j, "not_a_prefix", format!("{}: {}; {}", what, d, ctx));
				return j;
			}
			if got.len() < must {
				fail(&mut j, "valid_record_dropped", format!("{}: {} records lie wholly before the damage but only {} were read (end: {:?}); {}", what, must, got.len(), end, ctx));
				return j;
			}
			if let WalReadEnd::Other(e) = &end {
				fail(&mut j, "bad_end", format!("{}: reading ended with neither end-of-log nor a corruption report: {}; {}", what, e, ctx));
				return j;
			}
			if matches!(end, WalReadEnd::Corruption(..)) {
				j.count("corruption_reports", 1);
			}
			// 3. repair + append + read (on a sample: it is slower)
			if pi % 4 == 0 {
				let before = got.len();
				// half of the repairs find the partial output of an earlier repair that was
				// interrupted by a crash (a cut copy of the segment under repair_temp/)
				if pi % 8 == 0 {
					let left = work.join("repair_temp");
					std::fs::create_dir_all(&left).ok();
					let cut = (pos * 7 + 13) % (built.file.len() + 1);
					std::fs::write(left.join("00000000000000000000.wal"), &built.file[..cut]).ok();
					j.count("repairs_over_leftover", 1);
				}
				if let Err(e) = wal_repair_segment(&work, 0) {
					// repair may legitimately refuse nothing: any error is a finding
					fail(&mut j, "repair_failed", format!("{}: repair returned an error: {}; {}", what, e, ctx));
					return j;
				}
				j.count("repairs", 1);
				let after = if wseg.exists() {
					match wal_read_segment_with_offsets(&wseg) {
						Ok(x) => x,
						Err(e) => {
							fail(&mut j, "read_failed", format!("{}: after repair: {}", what, e));
							return j;
						}
					}
				} else {
					(vec![], WalReadEnd::Eof)
				};
				if let Err(d) = is_prefix(&after.0, &built.records) {
					fail(&mut j, "repair_not_a_prefix", format!("{}: after repair {}; {}", what, d, ctx));
					return j;
				}
				if after.0.len() < must || after.0.len() < before.min(must) {
					fail(&mut j, "repair_dropped_valid", format!("{}: repair kept {} records, {} lie wholly before the damage; {}", what, after.0.len(), must, ctx));
					return j;
				}
				if after.1 != WalReadEnd::Eof {
					fail(&mut j, "repair_left_damage", format!("{}: the repaired segment still does not read to a clean end: {:?}; {}", what, after.1, ctx));
					return j;
				}
				// appends after repair / reopen must read back on the next open
				let extra: Vec<Vec<u8>> = (0..2).map(|i| record(9000 + i, 10 + (pos % 300) + i as usize * 33000 * (pos % 2))).collect();
				match VerifWal::open(&work, compressed) {
					Ok(mut w) => {
						for r in &extra {
							if let Err(e) = w.append(r) {
								fail(&mut j, "append_failed", format!("{}: append after repair failed: {}", what, e));
								return j;
							}
						}
						if let Err(e) = w.close() {
							fail(&mut j, "append_failed", format!("{}: close after repair failed: {}", what, e));
							return j;
						}
					}
					Err(e) => {
						fail(&mut j, "append_failed", format!("{}: cannot open the repaired log for append: {}; {}", what, e, ctx));
						return j;
					}
				}
				let fin = match wal_read_segment_with_offsets(&wseg) {
					Ok(x) => x,
					Err(e) => {
						fail(&mut j, "read_failed", e.to_string());
						return j;
					}
				};
				let mut want: Vec<Vec<u8>> = after.0.iter().map(|r| r.0.clone()).collect();
				want.extend(extra.iter().cloned());
				if fin.0.iter().map(|r| &r.0).ne(want.iter()) || fin.1 != WalReadEnd::Eof {
					fail(
						&mut j,
						"append_after_repair_lost",
						format!("{}: after repair + 2 appends the log reads {} records (end {:?}), expected {}; {}", what, fin.0.len(), fin.1, want.len(), ctx),
					);
					return j;
				}
			} else if kind == 0 && pi % 4 == 1 {
				// no repair: reopen the truncated segment for append directly (what a restart does
				// when the reader saw a clean end)
				if end == WalReadEnd::Eof {
					let extra = record(8000, 50 + pos % 500);
					match VerifWal::open(&work, compressed) {
						Ok(mut w) => {
							let _ = w.append(&extra);
							let _ = w.close();
						}
						Err(e) => {
							fail(&mut j, "append_failed", format!("{}: cannot reopen for append: {}", what, e));
							return j;
						}
					}
					let fin = wal_read_segment_with_offsets(&wseg).unwrap_or((vec![], WalReadEnd::Other("io".into())));
					let mut want: Vec<Vec<u8>> = got.iter().map(|r| r.0.clone()).collect();
					want.push(extra);
					j.count("reopen_appends", 1);
					if fin.0.iter().map(|r| &r.0).ne(want.iter()) {
						fail(
							&mut j,
							"append_after_reopen_lost",
							format!("{}: the reader saw a clean end after {} records; a record appended after reopening is not read back (read {} records, end {:?}); {}", what, got.len(), fin.0.len(), fin.1, ctx),
						);
						return j;
					}
				}
			}
		}
	}
	let _ = std::fs::remove_dir_all(&dir);
	j
}

fn copy_dir(a: &Path, b: &Path) -> std::io::Result<()> {
	std::fs::create_dir_all(b)?;
	for e in std::fs::read_dir(a)? {
		let e = e?;
		let (p, q) = (e.path(), b.join(e.file_name()));
		if p.is_dir() {
			copy_dir(&p, &q)?;
		} else {
			std::fs::write(&q, std::fs::read(&p)?)?;
		}
	}
	Ok(())
}

/// Store-level leg (the property's anchors include the store's open path): the commit log
/// of a real store - one record per commit, nothing flushed - is cut or damaged at rest; then
/// * recovery mode with repair: open succeeds, the commits read back are a prefix that holds
///   every commit whose record lies wholly before the damage, and commits made AFTER that
///   open are read back by the next open;
/// * absolute-consistency mode: if the log reader reports corruption for the damaged segment,
///   open fails; if it reads to a clean end, open succeeds with exactly what was read.
fn store_leg(seed: u64, j: &mut Judged) {
	let mut rng = Rng::new(seed ^ 0x57a1);
	let root = fresh_dir("walst");
	let pristine = root.join("pristine");
	let work = root.join("db");
	std::fs::create_dir_all(&pristine).ok();
	ip::set_now(ip::SIM_EPOCH_NS);
	ip::enable_clock(true);
	ip::enable_rand(true, seed);
	let mut opts = StoreOpts::default();
	opts.memtable = 4 << 20;
	opts.flush_on_close = false;
	let rt = tokio::runtime::Builder::new_current_thread().enable_time().start_paused(true).build().unwrap();
	let val = |i: usize, len: usize| -> Vec<u8> { record(70_000 + i as u32, len) };
	let violation: Option<Violation> = rt.block_on(async {
		// 1. a store whose commits live only in its commit log
		let n = rng.range(2, 9) as usize;
		let lens: Vec<usize> = (0..n)
			.map(|_| match rng.below(6) {
				0 => rng.range(1, 30),
				1 | 2 => rng.range(30, 2000),
				3 => rng.range(BLOCK - 200, BLOCK + 200),
				4 => rng.range(BLOCK, 3 * BLOCK),
				_ => rng.range(2000, 20000),
			} as usize)
			.collect();
		{
			let t = match open_store(&opts, &pristine) {
				Ok(t) => t,
				Err(e) => return Some(Violation::new("open_failed", format!("store leg: fresh open failed: {}", e))),
			};
			for (i, len) in lens.iter().enumerate() {
				let mut txn = t.begin().unwrap();
				let _ = txn.set(format!("c{}", i).as_bytes(), val(i, *len).as_slice());
				if let Err(e) = txn.commit().await {
					return Some(Violation::new("append_failed", format!("store leg: commit failed: {}", e)));
				}
			}
			if let Err(e) = t.close().await {
				return Some(Violation::new("append_failed", format!("store leg: close failed: {}", e)));
			}
		}
		let mut segs: Vec<std::path::PathBuf> = std::fs::read_dir(pristine.join("wal")).map(|rd| rd.flatten().map(|e| e.path()).filter(|p| p.extension().map(|x| x == "wal").unwrap_or(false)).collect()).unwrap_or_default();
		segs.sort();
		let seg = match segs.iter().find(|p| std::fs::metadata(p).map(|m| m.len() > 0).unwrap_or(false)) {
			Some(s) => s.clone(),
			None => {
				j.count("store_leg.skipped", 1);
				return None;
			}
		};
		let (base, end) = match wal_read_segment_with_offsets(&seg) {
			Ok(x) => x,
			Err(e) => return Some(Violation::new("read_failed", format!("store leg: {}", e))),
		};
		if base.len() != n || end != WalReadEnd::Eof || segs.iter().filter(|p| std::fs::metadata(p).map(|m| m.len() > 0).unwrap_or(false)).count() != 1 {
			// not the layout this leg reasons about (one record per commit in one segment)
			j.count("store_leg.skipped", 1);
			return None;
		}
		let ends: Vec<u64> = base.iter().map(|r| r.1).collect();
		let orig = std::fs::read(&seg).unwrap_or_default();
		let rel = seg.strip_prefix(&pristine).unwrap().to_path_buf();
		let ctx = format!("store with {} commits of {:?} value bytes, segment {} bytes", n, lens, orig.len());
		// 2. damage positions: around record ends, block boundaries, anywhere
		for round in 0..rng.range(4, 8) {
			let pos = match rng.below(4) {
				0 | 1 => {
					let e = ends[rng.below(ends.len() as u64) as usize] as i64 + rng.below(19) as i64 - 9;
					e.clamp(0, orig.len() as i64 - 1) as usize
				}
				2 if orig.len() as u64 > BLOCK => (BLOCK as i64 + rng.below(19) as i64 - 9).clamp(0, orig.len() as i64 - 1) as usize,
				_ => rng.below(orig.len() as u64) as usize,
			};
			let mut data = orig.clone();
			let what = if rng.chance(1, 2) {
				data.truncate(pos);
				format!("segment truncated to {} bytes", pos)
			} else {
				let bit = 1u8 << rng.below(8);
				data[pos] ^= bit;
				format!("bit {:#x} flipped at offset {}", bit, pos)
			};
			let must = ends.iter().filter(|e| (**e as usize) <= pos).count();
			let stage = |dir: &Path| -> bool {
				let _ = std::fs::remove_dir_all(dir);
				copy_dir(&pristine, dir).is_ok() && std::fs::write(dir.join(&rel), &data).is_ok()
			};
			// what the log reader says about this segment
			if !stage(&work) {
				return Some(Violation::new("harness", "store leg: cannot stage directory".to_string()));
			}
			let verdict = match wal_read_segment_with_offsets(&work.join(&rel)) {
				Ok(x) => x,
				Err(e) => return Some(Violation::new("read_failed", format!("store leg: {}: {}", what, e))),
			};
			let present = |t: &surrealkv::Tree| -> Result<Vec<bool>, String> {
				let txn = t.begin().map_err(|e| e.to_string())?;
				let mut out = Vec::new();
				for (i, len) in lens.iter().enumerate() {
					match txn.get(format!("c{}", i).as_bytes()) {
						Ok(Some(v)) if v == val(i, *len) => out.push(true),
						Ok(None) => out.push(false),
						Ok(Some(v)) => return Err(format!("key c{} reads {} bytes that were never written under it", i, v.len())),
						Err(e) => return Err(format!("get c{} failed: {}", i, e)),
					}
				}
				Ok(out)
			};
			let prefix_len = |p: &[bool]| -> Option<usize> {
				let m = p.iter().take_while(|b| **b).count();
				if p[m..].iter().any(|b| *b) {
					None
				} else {
					Some(m)
				}
			};
			// 2a. absolute consistency
			let mut strict = opts.clone();
			strict.absolute_consistency = true;
			j.evaluations += 1;
			match open_store(&strict, &work) {
				Ok(t) => {
					if matches!(verdict.1, WalReadEnd::Corruption(..)) {
						let _ = t.close().await;
						return Some(Violation::new("strict_open_accepted_damage", format!("{}: the log reader reports corruption after {} records, yet the store opened in absolute-consistency mode; {}", what, verdict.0.len(), ctx)));
					}
					let p = match present(&t) {
						Ok(p) => p,
						Err(e) => return Some(Violation::new("not_a_prefix", format!("{}: absolute-consistency open: {}; {}", what, e, ctx))),
					};
					let _ = t.close().await;
					if prefix_len(&p) != Some(verdict.0.len()) {
						return Some(Violation::new("not_a_prefix", format!("{}: the log reads cleanly to {} records, the store opened in absolute-consistency mode holds commits {:?}; {}", what, verdict.0.len(), p, ctx)));
					}
					j.count("store_leg.strict_open_ok", 1);
				}
				Err(_) => {
					if verdict.1 == WalReadEnd::Eof {
						return Some(Violation::new("strict_open_refused_clean_log", format!("{}: the log reads to a clean end after {} records but the store does not open in absolute-consistency mode; {}", what, verdict.0.len(), ctx)));
					}
					j.count("store_leg.strict_open_refused", 1);
				}
			}
			// 2b. recovery with repair, then further commits, then the next open
			if !stage(&work) {
				return Some(Violation::new("harness", "store leg: cannot stage directory".to_string()));
			}
			if round % 3 == 1 {
				// leftover of a repair that a crash interrupted
				let left = work.join("wal").join("repair_temp");
				std::fs::create_dir_all(&left).ok();
				let cut = rng.below(orig.len() as u64 + 1) as usize;
				std::fs::write(left.join("00000000000000000000.wal"), &orig[..cut]).ok();
				j.count("store_leg.repairs_over_leftover", 1);
			}
			j.evaluations += 1;
			let t = match open_store(&opts, &work) {
				Ok(t) => t,
				Err(e) => return Some(Violation::new("repair_failed", format!("{}: the store does not open in the repairing recovery mode: {}; {}", what, e, ctx))),
			};
			let p = match present(&t) {
				Ok(p) => p,
				Err(e) => return Some(Violation::new("not_a_prefix", format!("{}: {}; {}", what, e, ctx))),
			};
			let m = match prefix_len(&p) {
				Some(m) => m,
				None => return Some(Violation::new("not_a_prefix", format!("{}: recovered commits {:?} are not a prefix; {}", what, p, ctx))),
			};
			if m < must {
				return Some(Violation::new("valid_record_dropped", format!("{}: {} commit records lie wholly before the damage but only {} were recovered; {}", what, must, m, ctx)));
			}
			let extra = rng.range(1, 3) as usize;
			for x in 0..extra {
				let mut txn = t.begin().unwrap();
				let _ = txn.set(format!("x{}", x).as_bytes(), val(100 + x, 40 + 33000 * (round as usize % 2)).as_slice());
				if let Err(e) = txn.commit().await {
					return Some(Violation::new("append_failed", format!("{}: commit after recovery failed: {}; {}", what, e, ctx)));
				}
			}
			if let Err(e) = t.close().await {
				return Some(Violation::new("append_failed", format!("{}: close after recovery failed: {}; {}", what, e, ctx)));
			}
			drop(t);
			let t = match open_store(if rng.chance(1, 2) { &opts } else { &strict }, &work) {
				Ok(t) => t,
				Err(e) => return Some(Violation::new("append_after_repair_lost", format!("{}: after recovery + {} commits + clean close the store does not open again: {}; {}", what, extra, e, ctx))),
			};
			let p2 = match present(&t) {
				Ok(p) => p,
				Err(e) => return Some(Violation::new("not_a_prefix", format!("{}: second open: {}; {}", what, e, ctx))),
			};
			let txn = t.begin().unwrap();
			let mut lost = Vec::new();
			for x in 0..extra {
				match txn.get(format!("x{}", x).as_bytes()) {
					Ok(Some(v)) if v == val(100 + x, 40 + 33000 * (round as usize % 2)) => {}
					_ => lost.push(x),
				}
			}
			drop(txn);
			let _ = t.close().await;
			if p2 != p || !lost.is_empty() {
				return Some(Violation::new("append_after_repair_lost", format!("{}: recovered commits {:?}; after {} further commits and a clean close the next open holds {:?} and misses further commits {:?}; {}", what, p, extra, p2, lost, ctx)));
			}
			j.count("store_leg.repair_rounds", 1);
		}
		None
	});
	drop(rt);
	ip::enable_clock(false);
	ip::enable_rand(false, 0);
	let _ = std::fs::remove_dir_all(&root);
	if j.violation.is_none() {
		j.violation = violation;
	}
}

fn judge(plan: &Plan, _tier: Tier) -> Judged {
	let p = plan.clone();
	match on_fresh_thread(move || {
		let mut j = run_case(&p);
		if j.violation.is_none() {
			store_leg(p.case_seed, &mut j);
		}
		j
	}) {
		Ok(j) => j,
		Err(msg) => {
			let mut j = Judged::default();
			let m = if msg.is_empty() { LAST_PANIC.lock().map(|g| g.clone()).unwrap_or_default() } else { msg };
			j.violation = Some(Violation::new("panic", format!("panic while reading / repairing a damaged log: {}", m)));
			j
		}
	}
}

pub fn c12() -> CheckDef {
	CheckDef {
		id: "C12",
		level: "fault_enumeration",
		rule: "a case = a generated record-length sequence (1 B .. 3 blocks, lengths leaving 0..7 bytes before a block boundary, both compression settings) appended over 1-3 sessions (close / reopen for append) with the real Wal; then for a stratified set of positions (every offset within +-9 of each record end and block boundary, plus a uniform sample; 500 quick / 3000 thorough per case): truncation, single-bit flip, byte overwrite; each damaged file is read with the real Reader, every fourth is repaired with the real repair code, reopened, appended to and read again; truncated logs that read to a clean end are also reopened for append without repair. Oracle: read-back is a prefix of the appended list containing every record wholly before the damage, ending in end-of-log or a corruption report; repair keeps such a prefix and leaves a clean log; later appends read back. evaluations = damaged reads; non-trivial = >=2 records; distinct = segment digests",
		assumptions: &["component level: the real wal::manager::Wal, wal::reader::Reader and wal::recovery::repair_corrupted_wal_segment through guarded wrappers; damage is applied to files at rest", "the 0-length payload edge is excluded: Wal::append rejects empty records"],
		components: "real: wal writer/manager, reader, repair; simulated: damage at rest (truncation = crash at any byte, bit/byte alteration); stubbed: nothing",
		cases: |t| match t {
			Tier::Quick => 640,
			Tier::Thorough => 6400,
		},
		gen,
		judge,
		shrink_budget: 0,
	}
}
