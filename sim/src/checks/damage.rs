//! C16: damaged files are detected, never served as data. Databases built by generated
//! workloads; every sampled byte position of every table / commit-log / value-log file is
//! altered (bit flip, byte overwrite, truncation for tables); the real store is opened on
//! the damaged copy and every key is read through every access path.

use std::collections::BTreeMap;
use std::path::{Path, PathBuf};

use surrealkv::{LSMIterator, Mode};

use crate::case::{fresh_dir, on_fresh_thread, run_session, End, LAST_PANIC};
use crate::exec::{hex, open_store, Violation, SCAN_HI, SCAN_LO};
use crate::framework::{CheckDef, Judged, Tier};
use crate::gen::*;
use crate::interpose as ip;
use crate::model::{Key, Model, ModeS, Val};
use crate::plan::*;
use crate::rng::Rng;

use super::crash::merge_stats;

fn gen(case_seed: u64, _case: u64, tier: Tier) -> Plan {
	let mut rng = Rng::new(case_seed);
	let mut opts = random_opts(&mut rng);
	opts.level_count = *rng.pick(&[2u8, 3, 4]);
	opts.flush_on_close = rng.chance(1, 2);
	if rng.chance(1, 2) {
		with_vlog(&mut rng, &mut opts);
		opts.vlog_checksum_full = true; // the property covers vlog files with full verification
	}
	if opts.versioning {
		// versioning brings a value log with it: it is damaged like the other files, so
		// full verification has to be on for the property to apply to it
		opts.vlog_checksum_full = true;
	}
	opts.absolute_consistency = true; // detected commit-log damage must fail the open
	let nkeys = rng.range(4, 14) as u16;
	let keys = key_universe(&mut rng, nkeys as usize, false);
	let nkeys = keys.len() as u16;
	let mut tags = TagGen(0);
	let budget = txn_budget(opts.memtable);
	let mut steps = Vec::new();
	for _ in 0..rng.range(6, 30) {
		write_txn(&mut rng, 0, nkeys, &mut tags, 4, 0, budget, &mut steps);
		if rng.chance(2, 5) {
			steps.push(physical_step(&mut rng, false));
		}
	}
	// leave something in the commit log too
	write_txn(&mut rng, 0, nkeys, &mut tags, 3, 0, budget, &mut steps);
	write_txn(&mut rng, 0, nkeys, &mut tags, 3, 0, budget, &mut steps);
	let mut params = BTreeMap::new();
	params.insert("positions".to_string(), match tier {
		Tier::Quick => 200,
		Tier::Thorough => 1500,
	});
	Plan {
		check: "C16".into(),
		case_seed,
		opts,
		keys,
		steps,
		windows: vec![],
		async_yields: false,
		gate_tasks: true,
		faults: vec![],
		crash: None,
		params,
		twin: None,
	}
}

fn copy_dir(a: &Path, b: &Path) -> std::io::Result<()> {
	std::fs::create_dir_all(b)?;
	for e in std::fs::read_dir(a)? {
		let e = e?;
		let p = e.path();
		let q = b.join(e.file_name());
		if p.is_dir() {
			copy_dir(&p, &q)?;
		} else {
			std::fs::write(&q, std::fs::read(&p)?)?;
		}
	}
	Ok(())
}

fn list_files(root: &Path) -> Vec<(PathBuf, String)> {
	let mut out = Vec::new();
	for (sub, class) in [("sstables", "sst"), ("wal", "wal"), ("vlog", "vlog")] {
		if let Ok(rd) = std::fs::read_dir(root.join(sub)) {
			let mut v: Vec<PathBuf> = rd.flatten().map(|e| e.path()).filter(|p| p.is_file()).collect();
			v.sort();
			for p in v {
				if p.extension().map(|e| e == class).unwrap_or(false) {
					out.push((p, class.to_string()));
				}
			}
		}
	}
	out
}

enum Outcome {
	OpenFailed,
	Read { gets: BTreeMap<Key, Result<Option<Val>, String>>, fwd: (Vec<(Key, Val)>, Option<String>), bwd: (Vec<(Key, Val)>, Option<String>) },
}

/// Open the (damaged) database and read everything; errors are recorded, not judged.
fn read_damaged(opts: &StoreOpts, dir: &Path, keys: &[Key], seed: u64) -> Result<Outcome, String> {
	let opts = opts.clone();
	let dir = dir.to_path_buf();
	let keys = keys.to_vec();
	on_fresh_thread(move || {
		ip::set_now(ip::SIM_EPOCH_NS + 7_200_000_000_000);
		ip::enable_clock(true);
		ip::enable_rand(true, seed);
		let rt = tokio::runtime::Builder::new_current_thread().enable_time().start_paused(true).build().unwrap();
		let r = rt.block_on(async {
			let tree = match open_store(&opts, &dir) {
				Ok(t) => t,
				Err(_) => return Outcome::OpenFailed,
			};
			tokio::task::yield_now().await;
			let out = match tree.begin_with_mode(Mode::ReadOnly) {
				Err(_) => Outcome::OpenFailed,
				Ok(txn) => {
					let mut gets = BTreeMap::new();
					for k in &keys {
						gets.insert(k.clone(), txn.get(k.as_slice()).map_err(|e| e.to_string()));
					}
					let walk = |rev: bool| -> (Vec<(Key, Val)>, Option<String>) {
						let mut out = Vec::new();
						let mut it = match txn.range(SCAN_LO.to_vec(), SCAN_HI.to_vec()) {
							Ok(i) => i,
							Err(e) => return (out, Some(e.to_string())),
						};
						let mut ok = match if rev { it.seek_last() } else { it.seek_first() } {
							Ok(b) => b,
							Err(e) => return (out, Some(e.to_string())),
						};
						while ok && it.valid() {
							let k = it.key().user_key().to_vec();
							match it.value() {
								Ok(v) => out.push((k, v)),
								Err(e) => return (out, Some(e.to_string())),
							}
							ok = match if rev { it.prev() } else { it.next() } {
								Ok(b) => b,
								Err(e) => return (out, Some(e.to_string())),
							};
							if out.len() > 100_000 {
								return (out, Some("runaway scan".into()));
							}
						}
						(out, None)
					};
					let fwd = walk(false);
					let bwd = walk(true);
					Outcome::Read { gets, fwd, bwd }
				}
			};
			let _ = tree.close().await;
			drop(tree);
			for _ in 0..3 {
				tokio::task::yield_now().await;
			}
			out
		});
		drop(rt);
		ip::enable_clock(false);
		ip::enable_rand(false, 0);
		r
	})
}

fn judge(plan: &Plan, _tier: Tier) -> Judged {
	let mut j = Judged::default();
	let mut rng = Rng::new(plan.case_seed ^ 0xda);
	// allocation bombs from damaged length fields abort the worker; the framework reports it
	unsafe {
		let lim = libc::rlimit { rlim_cur: 6 << 30, rlim_max: 6 << 30 };
		libc::setrlimit(libc::RLIMIT_AS, &lim);
	}
	let root = fresh_dir("dmgdb");
	let s = run_session(plan, &root, End::Close, None);
	merge_stats(&mut j, &s.outcome.stats);
	if let Some(v) = &s.outcome.violation {
		j.count(&format!("other_property.{}", v.class), 1);
		let _ = std::fs::remove_dir_all(&root);
		return j;
	}
	let model: Model = s.outcome.model;
	let pristine: BTreeMap<Key, Val> = model.live(u64::MAX);
	let keys: Vec<Key> = {
		let mut k = plan.keys.clone();
		for x in model.all_keys() {
			if !k.contains(&x) {
				k.push(x);
			}
		}
		k
	};
	// the undamaged database must read back exactly (otherwise it is another property's problem)
	match read_damaged(&plan.opts, &root, &keys, plan.case_seed) {
		Ok(Outcome::Read { gets, fwd, bwd }) => {
			let ok = keys.iter().all(|k| gets.get(k).map(|g| g.as_ref().ok() == Some(&pristine.get(k).cloned())).unwrap_or(false))
				&& fwd.1.is_none()
				&& bwd.1.is_none()
				&& fwd.0.iter().cloned().collect::<BTreeMap<_, _>>() == pristine;
			if !ok {
				j.count("other_property.pristine_mismatch", 1);
				let _ = std::fs::remove_dir_all(&root);
				return j;
			}
		}
		_ => {
			j.count("other_property.pristine_open_failed", 1);
			let _ = std::fs::remove_dir_all(&root);
			return j;
		}
	}
	let files = list_files(&root);
	j.nontrivial = files.iter().any(|f| f.1 == "sst") && model.commits.len() >= 2;
	j.sig = crate::disk::digest(&s.outcome.ops);
	let total_budget = plan.params.get("positions").copied().unwrap_or(90) as usize;
	let per_file = (total_budget / files.len().max(1)).max(6);
	let work = fresh_dir("dmgwork");
	let pristine_vec: Vec<(Key, Val)> = pristine.iter().map(|(k, v)| (k.clone(), v.clone())).collect();
	let boundaries = model.boundaries();

	for (path, class) in &files {
		let data = match std::fs::read(path) {
			Ok(d) => d,
			Err(_) => continue,
		};
		if data.is_empty() {
			continue;
		}
		let n = data.len();
		// stratified positions: head, tail (footer / meta / index live there), uniform rest
		let mut pos: Vec<usize> = Vec::new();
		for i in 0..per_file / 4 {
			pos.push(i.min(n - 1));
			pos.push(n - 1 - i.min(n - 1));
		}
		while pos.len() < per_file {
			pos.push(rng.below(n as u64) as usize);
		}
		pos.sort();
		pos.dedup();
		let rel = path.strip_prefix(&root).unwrap().to_path_buf();
		for (pi, p) in pos.iter().enumerate() {
			let kinds: &[u8] = if class == "sst" && pi % 5 == 0 { &[0, 1, 2] } else { &[0, 1] };
			for kind in kinds {
				let mut d2 = data.clone();
				let what = match kind {
					0 => {
						let bit = 1u8 << (rng.below(8) as u8);
						d2[*p] ^= bit;
						format!("bit {:#04x} flipped at offset {} of {} ({} bytes)", bit, p, rel.display(), n)
					}
					1 => {
						let nv = match rng.below(4) {
							0 => 0x00,
							1 => 0xff,
							2 => d2[*p].wrapping_add(1),
							_ => d2[*p].wrapping_sub(1),
						};
						if nv == d2[*p] {
							continue;
						}
						d2[*p] = nv;
						format!("byte at offset {} of {} ({} bytes) overwritten with {:#04x}", p, rel.display(), n, nv)
					}
					_ => {
						d2.truncate(*p);
						format!("{} truncated from {} to {} bytes", rel.display(), n, p)
					}
				};
				let _ = std::fs::remove_dir_all(&work);
				if copy_dir(&root, &work).is_err() {
					continue;
				}
				let _ = std::fs::remove_file(work.join("LOCK"));
				if std::fs::write(work.join(&rel), &d2).is_err() {
					continue;
				}
				j.evaluations += 1;
				j.count(&format!("damage.{}.{}", class, match kind {
					0 => "bit_flip",
					1 => "byte_overwrite",
					_ => "truncation",
				}), 1);
				let out = match read_damaged(&plan.opts, &work, &keys, plan.case_seed ^ *p as u64) {
					Ok(o) => o,
					Err(msg) => {
						let m = if msg.is_empty() { LAST_PANIC.lock().map(|g| g.clone()).unwrap_or_default() } else { msg };
						j.violation = Some(Violation::new("panic", format!("{}: panic while opening / reading: {}", what, m)));
						let _ = std::fs::remove_dir_all(&root);
						let _ = std::fs::remove_dir_all(&work);
						return j;
					}
				};
				let (gets, fwd, bwd) = match out {
					Outcome::OpenFailed => {
						j.count("detected.open_failed", 1);
						continue;
					}
					Outcome::Read { gets, fwd, bwd } => (gets, fwd, bwd),
				};
				let mut any_err = fwd.1.is_some() || bwd.1.is_some();
				let mut bad: Option<String> = None;
				if class == "wal" {
					// commit-log damage: the open either fails or the store shows a commit prefix
					// (the tolerated "log ends here" reading of a damaged tail, cf. C12); never
					// anything that is not a prefix of the commit order
					let got: BTreeMap<Key, Val> = fwd.0.iter().cloned().collect();
					if !any_err && !gets.values().any(|g| g.is_err()) {
						let is_prefix = boundaries.iter().any(|b| model.live(*b) == got);
						if !is_prefix {
							bad = Some("store opened and shows a state that is no prefix of the commit order".into());
						} else if got != pristine {
							// a flipped / overwritten byte is not a torn tail: in AbsoluteConsistency
							// mode the open must fail rather than end the log early and drop
							// committed data without an error
							bad = Some(format!("damaged commit log was read as a shorter log: the store opened without error and shows {} of {} keys of the written state", got.len(), pristine.len()));
						}
					}
				} else {
					for (k, g) in &gets {
						match g {
							Err(_) => any_err = true,
							Ok(v) => {
								if v.as_ref() != pristine.get(k) {
									bad = Some(format!("get({}) returned {:?}, the written data is {:?}", hex(k), v.as_ref().map(|x| hex(&x[..x.len().min(16)])), pristine.get(k).map(|x| hex(&x[..x.len().min(16)]))));
									break;
								}
							}
						}
					}
					if bad.is_none() {
						for (name, res, rev) in [("forward", &fwd, false), ("backward", &bwd, true)] {
							let want: Vec<(Key, Val)> = if rev { pristine_vec.iter().rev().cloned().collect() } else { pristine_vec.clone() };
							let got = &res.0;
							let prefix_ok = got.len() <= want.len() && got.iter().zip(want.iter()).all(|(a, b)| a == b);
							if !prefix_ok {
								let i = got.iter().zip(want.iter()).position(|(a, b)| a != b).unwrap_or(want.len().min(got.len()));
								bad = Some(format!(
									"{} scan yielded {:?} at position {} where the written data has {:?}",
									name,
									got.get(i).map(|(k, v)| (hex(k), hex(&v[..v.len().min(12)]))),
									i,
									want.get(i).map(|(k, v)| (hex(k), hex(&v[..v.len().min(12)])))
								));
								break;
							}
							if res.1.is_none() && got.len() != want.len() {
								bad = Some(format!("{} scan ended without error after {} of {} entries", name, got.len(), want.len()));
								break;
							}
						}
					}
				}
				if bad.is_some() && std::env::var("SKV_DEBUG").is_ok() {
					for (k, g) in &gets {
						eprintln!("  get {} -> {:?} (pristine {:?})", hex(k), g.as_ref().map(|v| v.as_ref().map(|x| hex(&x[..x.len().min(10)]))), pristine.get(k).map(|x| hex(&x[..x.len().min(10)])));
					}
					eprintln!("  fwd {:?} err {:?}", fwd.0.iter().map(|(k, _)| hex(k)).collect::<Vec<_>>(), fwd.1);
					eprintln!("  bwd {:?} err {:?}", bwd.0.iter().map(|(k, _)| hex(k)).collect::<Vec<_>>(), bwd.1);
				}
				if let Some(b) = bad {
					j.violation = Some(Violation::new("wrong_data", format!("{}: {}", what, b)));
					j.context.insert("file_class".into(), serde_json::json!(class));
					let _ = std::fs::remove_dir_all(&root);
					let _ = std::fs::remove_dir_all(&work);
					return j;
				}
				if any_err {
					j.count("detected.read_error", 1);
				} else {
					j.count("harmless", 1);
				}
			}
		}
	}
	let _ = std::fs::remove_dir_all(&root);
	let _ = std::fs::remove_dir_all(&work);
	j
}

pub fn c16() -> CheckDef {
	CheckDef {
		id: "C16",
		level: "fault_enumeration",
		rule: "a case = a database built by a generated workload (tables on 2-4 levels, a commit log with content, value-log files with full verification in half the cases, per-level compression, tiny blocks), closed cleanly; then for every table / commit-log / value-log file a stratified sample of byte positions (the first and last bytes - header, footer, meta, index - plus a uniform sample; 200 positions per database quick, 1500 thorough): single-bit flip and byte overwrite everywhere, truncation of table files; the real store (AbsoluteConsistency mode) is opened on each damaged copy with a cold cache and every key is read by get, forward scan and backward scan. Oracle: each operation returns exactly the pristine answer or an error (a scan may yield a correct prefix and then fail); no panic, abort (RLIMIT_AS) or hang (watchdog). Commit-log damage (bit flip / overwrite, not truncation) must likewise give an error or the full written state: a shorter log read without error is a violation. evaluations = damaged databases opened; non-trivial = at least one table file and >=2 commits; distinct = op-log digests",
		assumptions: &["damage is applied to files at rest between a clean close and a fresh open (cold cache)", "manifest, lock file and version index are outside the property's file list"],
		components: "real: all of surrealkv's open / recovery / read path, std::fs; simulated: damage at rest, clock, randomness; stubbed: nothing",
		cases: |t| match t {
			Tier::Quick => 240,
			Tier::Thorough => 2400,
		},
		gen,
		judge,
		shrink_budget: 40,
	}
}

#[allow(dead_code)]
fn _u(_: ModeS) {}
