//! C02 / C03 / C07: traced workloads, sliced at crash points under two crash models,
//! recovered by the real store and judged by the recovery rule. Multi-generation.

use std::collections::BTreeMap;

use crate::case::{build_image, fresh_dir, run_session, End};
use crate::disk::{CrashModel, Image, Op, Tear};
use crate::exec::Violation;
use crate::framework::{CheckDef, Judged, Tier};
use crate::gen::*;
use crate::model::{Model, ModeS, Status};
use crate::plan::*;
use crate::recovery::recover_check;
use crate::rng::Rng;

#[derive(Clone, Copy, PartialEq, Eq)]
enum Focus {
	C02,
	C03,
	C07,
	C11,
	C10,
}

fn focus_of(plan: &Plan) -> Focus {
	match plan.check.as_str() {
		"C02" => Focus::C02,
		"C03" => Focus::C03,
		"C11" => Focus::C11,
		"C10" => Focus::C10,
		_ => Focus::C07,
	}
}

fn gen_workload(rng: &mut Rng, focus: Focus, nkeys: u16, tags: &mut TagGen, commits: u64, gated: bool, allow_reopen: bool, budget: u32, big: bool) -> Vec<Step> {
	let mut steps = Vec::new();
	let (max_writes, sync_pct) = match focus {
		Focus::C02 => (3, 35),
		Focus::C03 => (8, 20),
		Focus::C07 => (5, 20),
		Focus::C11 => (3, 30),
		Focus::C10 => (4, 25),
	};
	for _ in 0..commits {
		if big && rng.chance(2, 3) {
			// a transaction whose log record spans several 32 KiB blocks (First / Middle / Last
			// fragments, several write(2) calls per append)
			steps.push(Step::Begin { a: 0, mode: ModeS::ReadWrite });
			let mut left = budget;
			for _ in 0..rng.range(1, 3) {
				let len = (rng.range(12_000, 90_000) as u32).min(left.saturating_sub(100));
				if len < 1000 {
					break;
				}
				steps.push(Step::Set { a: 0, k: rng.below(nkeys as u64) as u16, v: tags.next(len), ts: None });
				left = left.saturating_sub(len + 100);
			}
			steps.push(Step::Commit { a: 0, sync: rng.below(100) < sync_pct });
		} else {
			write_txn(rng, 0, nkeys, tags, max_writes, sync_pct, budget, &mut steps);
		}
		match rng.below(12) {
			0 | 1 => steps.push(physical_step(rng, allow_reopen)),
			2 => steps.push(Step::FlushWal { sync: rng.chance(1, 2) }),
			3 => steps.push(Step::Probe),
			4 if gated => steps.push(Step::ReleaseFlushTask),
			5 if gated => steps.push(Step::ReleaseLevelTask),
			6 if focus == Focus::C07 => steps.push(Step::CompactAll),
			_ => {}
		}
	}
	steps
}

pub fn gen_c10_crash(case_seed: u64, case: u64, tier: Tier) -> Plan {
	let mut p = gen(case_seed, case, tier, "C10", Focus::C10);
	p.params.insert("mode".into(), 1);
	p
}

pub fn gen_c11_crash(case_seed: u64, case: u64, tier: Tier) -> Plan {
	let mut p = gen(case_seed, case, tier, "C11", Focus::C11);
	p.params.insert("mode".into(), 1);
	p
}

/// C10's domain: one write per key per transaction (no two versions tie on the commit
/// timestamp).
pub fn one_write_per_key(steps: &mut Vec<Step>) {
	let mut seen: BTreeMap<u8, Vec<u16>> = BTreeMap::new();
	steps.retain(|s| match s {
		Step::Begin { a, .. } | Step::Commit { a, .. } | Step::Rollback { a } | Step::DropTxn { a } => {
			seen.remove(a);
			true
		}
		Step::Set { a, k, .. } | Step::Delete { a, k, .. } | Step::SoftDelete { a, k, .. } | Step::Replace { a, k, .. } => {
			let v = seen.entry(*a).or_default();
			if v.contains(k) {
				false
			} else {
				v.push(*k);
				true
			}
		}
		_ => true,
	});
}

fn gen(case_seed: u64, _case: u64, tier: Tier, id: &str, focus: Focus) -> Plan {
	let mut rng = Rng::new(case_seed);
	let mut opts = random_opts(&mut rng);
	if rng.chance(1, 4) || focus == Focus::C11 {
		with_vlog(&mut rng, &mut opts);
	}
	if focus == Focus::C11 {
		opts.vlog_max_file = *rng.pick(&[256u64, 512, 1024]);
	}
	if focus == Focus::C10 {
		// version history across crashes: the B+tree version index is updated in place
		// during a flush, before the manifest switches
		opts.versioning = true;
		opts.versioned_index = rng.chance(2, 3);
		opts.retention_ns = 0;
	}
	// tiny memtables so that rotation happens every few commits
	if rng.chance(2, 3) {
		opts.memtable = *rng.pick(&[1536usize, 2048, 2560]);
	}
	let nkeys = rng.range(4, 14) as u16;
	let keys = key_universe(&mut rng, nkeys as usize, false);
	let mut tags = TagGen(0);
	let gated = rng.chance(1, 3);
	let commits = match tier {
		Tier::Quick => rng.range(4, 22),
		Tier::Thorough => rng.range(4, 36),
	};
	// an eighth of the cases: big memtables and transactions whose log records span several
	// blocks (everything else keeps records well below one block)
	let big = !matches!(focus, Focus::C10 | Focus::C11) && rng.chance(1, 8);
	let mut commits = commits;
	if big {
		opts.memtable = *rng.pick(&[262_144usize, 400_000]);
		commits = rng.range(3, 9);
	}
	let budget = txn_budget(opts.memtable);
	// a sixth of the cases: the commit pipeline overlaps a rotation. One committer is parked
	// between its WAL append and its memtable apply while another commits completely; then a
	// rotation that is NOT caused by a full arena (rotate / flush), then the parked commit is
	// applied - to the new memtable, although its log record is in the old segment
	let overlap = !big && !matches!(focus, Focus::C10 | Focus::C11) && rng.chance(1, 6);
	let mut steps = if overlap {
		let mut st = Vec::new();
		let full_commit = |st: &mut Vec<Step>, a: u8, sync: bool| {
			st.push(Step::Commit { a, sync });
			for _ in 0..7 {
				st.push(Step::Poll { a });
			}
		};
		for _ in 0..commits.min(12) {
			if rng.chance(1, 2) {
				// parked committer a1
				st.push(Step::Begin { a: 1, mode: ModeS::ReadWrite });
				for _ in 0..rng.range(1, 3) {
					st.push(Step::Set { a: 1, k: rng.below(nkeys as u64) as u16, v: tags.next(rng.range(8, 60) as u32), ts: None });
				}
				st.push(Step::Commit { a: 1, sync: rng.chance(1, 3) });
				st.push(Step::Poll { a: 1 });
				st.push(Step::Poll { a: 1 }); // now logged, parked before its apply
				for _ in 0..rng.range(1, 3) {
					st.push(Step::Begin { a: 0, mode: ModeS::ReadWrite });
					st.push(Step::Set { a: 0, k: rng.below(nkeys as u64) as u16, v: tags.next(rng.range(8, 60) as u32), ts: None });
					full_commit(&mut st, 0, rng.chance(1, 3));
				}
				st.push(match rng.below(3) {
					0 => Step::Rotate,
					1 => Step::FlushAll,
					_ => Step::Rotate,
				});
				if rng.chance(1, 2) {
					st.push(Step::FlushOne);
				}
				for _ in 0..6 {
					st.push(Step::Poll { a: 1 });
				}
				if rng.chance(1, 2) {
					st.push(Step::FlushOne);
				}
			} else {
				st.push(Step::Begin { a: 0, mode: ModeS::ReadWrite });
				for _ in 0..rng.range(1, 3) {
					st.push(Step::Set { a: 0, k: rng.below(nkeys as u64) as u16, v: tags.next(rng.range(8, 60) as u32), ts: None });
				}
				full_commit(&mut st, 0, rng.chance(1, 3));
				if rng.chance(1, 5) {
					st.push(physical_step(&mut rng, false));
				}
			}
		}
		st
	} else {
		gen_workload(&mut rng, focus, nkeys, &mut tags, commits, gated, true, budget, big)
	};
	if focus == Focus::C10 {
		one_write_per_key(&mut steps);
	}
	let mut params = BTreeMap::new();
	let gens = if rng.chance(1, 2) { 2 } else { 1 };
	params.insert("gens".to_string(), gens);
	params.insert("points".to_string(), match tier {
		Tier::Quick => 28,
		Tier::Thorough => 400,
	});
	params.insert("gen2_point_sel".to_string(), rng.below(1 << 30) as i64);
	params.insert("gen2_model".to_string(), rng.below(2) as i64);
	params.insert("clean_close".to_string(), if focus == Focus::C07 && rng.chance(1, 3) { 1 } else { 0 });
	let tear = Tear { seq: (0..rng.range(1, 6)).map(|_| rng.below(1 << 16) as u32).collect() };
	let mut twin = None;
	if gens == 2 {
		let c2 = rng.range(2, 10);
		// the second generation runs later than the first (commit timestamps keep growing)
		let mut s2 = vec![Step::RecoverSettle, Step::Advance { ns: 10_000_000 }];
		s2.extend(gen_workload(&mut rng, focus, nkeys, &mut tags, c2, false, false, budget, big));
		if focus == Focus::C10 {
			one_write_per_key(&mut s2);
		}
		twin = Some(Box::new(Plan {
			check: id.to_string(),
			case_seed: case_seed ^ 0x9e37,
			opts: opts.clone(),
			keys: keys.clone(),
			steps: s2,
			windows: vec![],
			async_yields: false,
			gate_tasks: false,
			faults: vec![],
			crash: None,
			params: BTreeMap::new(),
			twin: None,
		}));
	}
	// the flush of the memtable a commit has just rotated away, placed between that rotation and
	// the commit's retry on the fresh memtable (and right at the ArenaFull): the commit's log
	// record is in the old segment and nowhere else yet
	let mut windows = Vec::new();
	if rng.chance(1, 3) {
		for label in ["apply.post_rotate", "apply.arena_full"] {
			if rng.chance(2, 3) {
				windows.push(Window { label: label.into(), nth: rng.range(1, 3) as u32, steps: vec![if rng.chance(1, 2) { Step::FlushOne } else { Step::FlushAll }] });
			}
		}
	}
	Plan {
		check: id.to_string(),
		case_seed,
		opts,
		keys,
		steps,
		windows,
		async_yields: overlap,
		gate_tasks: gated,
		faults: vec![],
		crash: Some(CrashPlan { model: CrashModel::Process, points: vec![], tear }),
		params,
		twin,
	}
}

/// Crash points: every boundary (thorough) or a stratified sample (quick).
fn choose_points(ops: &[Op], max: usize, rng: &mut Rng) -> Vec<usize> {
	let n = ops.len();
	if n + 1 <= max {
		return (0..=n).collect();
	}
	let mut must: Vec<usize> = vec![n];
	let mut interesting: Vec<usize> = Vec::new();
	for (i, op) in ops.iter().enumerate() {
		match op {
			Op::Rename { .. } | Op::Unlink { .. } => {
				must.push(i);
				must.push(i + 1);
			}
			Op::Fsync { .. } | Op::Create { .. } | Op::Marker { .. } | Op::Truncate { .. } => {
				interesting.push(i);
				interesting.push(i + 1);
			}
			_ => {}
		}
	}
	must.sort();
	must.dedup();
	interesting.sort();
	interesting.dedup();
	let mut out: Vec<usize> = Vec::new();
	// namespace operations first (at most half the budget)
	while must.len() > max / 2 {
		let i = rng.below(must.len() as u64) as usize;
		must.remove(i);
	}
	out.extend(must);
	while out.len() < max * 3 / 4 && !interesting.is_empty() {
		let i = rng.below(interesting.len() as u64) as usize;
		out.push(interesting.remove(i));
	}
	while out.len() < max {
		out.push(rng.below(n as u64 + 1) as usize);
	}
	out.sort();
	out.dedup();
	out
}

/// (lo, hi) of the recovery rule at crash point n.
fn window(model: &Model, n: usize, cm: CrashModel) -> (u64, u64) {
	let mut lo = 0;
	let mut hi = 0;
	for c in &model.commits {
		if c.status == Status::Failed {
			continue;
		}
		if c.op_at_seq <= n {
			hi = hi.max(c.last_seq);
		}
		if c.status == Status::Acked {
			if let Some(at) = c.op_at_ack {
				let durable = match cm {
					CrashModel::Process => true,
					CrashModel::PowerLoss => c.durable_sync,
				};
				if at <= n && durable {
					lo = lo.max(c.last_seq);
				}
			}
		}
	}
	// sequence order: an acknowledged-durable commit implies every earlier one
	(lo, hi.max(lo))
}

/// Does the class count as a violation of the focused property?
fn owns(focus: Focus, class: &str, lo: u64) -> bool {
	match focus {
		Focus::C02 => matches!(class, "acked_lost" | "acked_write_missing" | "panic") || (class == "open_failed" && lo > 0),
		Focus::C03 => matches!(class, "not_prefix" | "future_data" | "scan_disagree" | "get_scan_disagree" | "panic"),
		Focus::C11 => matches!(class, "acked_lost" | "acked_write_missing" | "not_prefix" | "read_error" | "scan_disagree" | "get_scan_disagree" | "panic") || (class == "open_failed" && lo > 0),
		Focus::C10 => matches!(class, "history_mismatch" | "history_entries_lost" | "get_at_mismatch" | "read_error" | "panic") || (class == "open_failed" && lo > 0),
		Focus::C07 => matches!(
			class,
			"open_failed" | "reopen_differs" | "probe_shadowed" | "probe_commit_failed" | "close_failed" | "background_error" | "read_error" | "panic" | "recovery_not_idempotent"
		),
	}
}

/// For C02: is a not-a-prefix state missing an acknowledged write?
fn acked_write_missing(got: &BTreeMap<Vec<u8>, Vec<u8>>, model: &Model, lo: u64, hi: u64) -> bool {
	let base = model.live(lo);
	let later: Vec<BTreeMap<Vec<u8>, Vec<u8>>> = model.boundaries().into_iter().filter(|b| *b > lo && *b <= hi).map(|b| model.live(b)).collect();
	let mut keys: Vec<&Vec<u8>> = base.keys().chain(got.keys()).collect();
	keys.sort();
	keys.dedup();
	for k in keys {
		let w = base.get(k);
		let g = got.get(k);
		if w == g {
			continue;
		}
		if later.iter().any(|l| l.get(k) == g) {
			continue;
		}
		return true;
	}
	false
}

struct Sweep<'a> {
	focus: Focus,
	j: &'a mut Judged,
	deep: bool,
}

impl Sweep<'_> {
	/// Sweep crash points of one op log. Returns the first owned violation.
	#[allow(clippy::too_many_arguments)]
	fn run(&mut self, plan: &Plan, base: &Image, ops: &[Op], model: &Model, points: &[usize], tear: &Tear, gen: u32) -> Option<Violation> {
		let mut first_known: Option<Violation> = None;
		for &n in points {
			let mut process_ok = false;
			// the process-crash image of this very point already failed as F9's interrupted
			// index update: a power-loss image of the same point (which holds at most what the
			// process image holds) failing out of the B+tree code is the same finding
			let mut process_f9 = false;
			for (mi, cm) in [CrashModel::Process, CrashModel::PowerLoss, CrashModel::PowerLoss].iter().enumerate() {
				// C10 quantifies over process-crash images only (the version index is
				// updated in place and makes no power-loss promise)
				if self.focus == Focus::C10 && *cm == CrashModel::PowerLoss {
					continue;
				}
				let t = match mi {
					1 => Tear::default(),
					_ => tear.clone(),
				};
				if mi == 2 && t.seq.is_empty() {
					continue;
				}
				let (lo, hi) = window(model, n, *cm);
				let dir = match build_image(base, ops, n, *cm, &t, "img") {
					Ok(d) => d,
					Err(e) => {
						return Some(Violation::new("harness", format!("image build failed: {}", e)));
					}
				};
				// did a recovery flush a table before the first commit of this session?
				let first_commit = ops.iter().position(|o| matches!(o, Op::Marker { text } if text.starts_with("invoke commit"))).unwrap_or(ops.len());
				let recovery_flushed = gen > 1 && ops[..n.min(first_commit)].iter().any(|o| matches!(o, Op::Create { path, .. } if path.ends_with(".sst")));
				let r = recover_check(&plan.opts, &dir, model, lo, hi, &plan.keys, self.deep, plan.case_seed ^ n as u64, recovery_flushed, self.focus == Focus::C10);
				let _ = std::fs::remove_dir_all(&dir);
				self.j.evaluations += 1;
				self.j.count(if *cm == CrashModel::Process { "images.process_crash" } else { "images.power_loss" }, 1);
				if lo > 0 {
					self.j.count("images.with_acked_commits", 1);
				}
				if hi > lo {
					self.j.count("images.with_unacked_tail", 1);
				}
				if *cm == CrashModel::Process {
					process_ok = r.violation.is_none();
					if std::env::var("SKV_DEBUG").is_ok() {
						if let Some(v) = &r.violation {
							eprintln!("  process image at {} fails: {} {}", n, v.class, v.detail);
						}
					}
				}
				if let Some(mut v) = r.violation {
					// F9: the B+tree version index is updated in place, page by page, without a
					// journal: a power loss that tears or drops one of its page writes leaves an
					// index the store cannot read. Attributed only when the process-crash image of
					// the very same point recovers, the failing image is a power-loss one, and the
					// failure comes out of the B+tree code.
					if ((process_ok || process_f9) && crate::recovery::index_torn_by_power_loss(&plan.opts, *cm == CrashModel::PowerLoss, &v))
						|| (*cm == CrashModel::Process && crate::recovery::index_update_interrupted(&plan.opts, ops, n, &v))
					{
						v.explained = Some("version_index_torn_by_power_loss".into());
						if *cm == CrashModel::Process {
							process_f9 = true;
						}
					}
					if v.class == "not_prefix" && self.focus == Focus::C02 && acked_write_missing(&r.contents, model, lo, hi) {
						v.class = "acked_write_missing".into();
					}
					// C07: a crash point of a later generation that lies before that session's first
					// commit is a crash during / right after recovery: it must recover to the very
					// state the first recovery produced
					if self.focus == Focus::C07 && gen > 1 && n <= first_commit && matches!(v.class.as_str(), "acked_lost" | "not_prefix" | "future_data") {
						v.class = "recovery_not_idempotent".into();
						v.detail = format!("crash during/after recovery and before any new commit: the next recovery yields different contents: {}", v.detail);
					}
					let where_ = format!(
						"generation {} crash point {}/{} ({}) model {:?} tear {:?}: ",
						gen,
						n,
						ops.len(),
						if n > 0 { ops[n - 1].short() } else { "start".into() },
						cm,
						t.seq
					);
					if owns(self.focus, &v.class, lo) {
						if std::env::var("SKV_DEBUG").is_ok() {
							for c in &model.commits {
								eprintln!("  commit txn{} {}..{} {:?} at_seq={} at_ack={:?} sync={} logged={:?} applied={:?}", c.txn, c.first_seq, c.last_seq, c.status, c.op_at_seq, c.op_at_ack, c.durable_sync, c.logged_wal, c.applied_wal);
							}
							eprintln!("  lo={} hi={} n={}", lo, hi, n);
							for (i, op) in ops.iter().enumerate().take(n + 2) {
								eprintln!("  op {:4} {}", i, op.short());
							}
						}
						self.j.context.insert("crash_point".into(), serde_json::json!(n));
						self.j.context.insert("crash_model".into(), serde_json::json!(format!("{:?}", cm)));
						self.j.context.insert("generation".into(), serde_json::json!(gen));
						let full = Violation { class: v.class, detail: format!("{}{}", where_, v.detail), explained: v.explained };
						if full.explained.is_some() {
							// attributed to a known finding: keep looking for anything else
							self.j.count("known_finding_images", 1);
							if first_known.is_none() {
								first_known = Some(full);
							}
							continue;
						}
						return Some(full);
					} else {
						self.j.count(&format!("other_property.{}", v.class), 1);
					}
				} else if let Some(p) = r.p {
					if p > lo {
						self.j.count("recovered_beyond_ack", 1);
					}
					if !r.ops.is_empty() {
						self.j.count("recovery_sessions_that_wrote", 1);
					}
				}
			}
		}
		first_known
	}
}

pub fn judge(plan: &Plan, _tier: Tier) -> Judged {
	let focus = focus_of(plan);
	let mut j = Judged::default();
	let mut rng = Rng::new(plan.case_seed ^ 0xc4a5);
	let tear = plan.crash.as_ref().map(|c| c.tear.clone()).unwrap_or_default();
	let max_points = plan.params.get("points").copied().unwrap_or(28) as usize;
	let clean_close = plan.params.get("clean_close").copied().unwrap_or(0) == 1;
	let explicit: Vec<usize> = plan.crash.as_ref().map(|c| c.points.clone()).unwrap_or_default();

	// generation 1
	let root = fresh_dir("db");
	let s1 = run_session(plan, &root, if clean_close { End::Close } else { End::Crash }, None);
	let out = s1.outcome;
	merge_stats(&mut j, &out.stats);
	if let Some(v) = &out.violation {
		let _ = std::fs::remove_dir_all(&root);
		if v.class == "panic" || (focus == Focus::C07 && matches!(v.class.as_str(), "reopen_failed" | "close_failed" | "background_error")) {
			j.violation = Some(Violation { class: v.class.clone(), detail: format!("during the traced workload: {}", v.detail), explained: v.explained.clone() });
			return j;
		}
		j.count(&format!("other_property.{}", v.class), 1);
		if std::env::var("SKV_DEBUG").is_ok() {
			eprintln!("session violation: {:?}", v);
			for e in &out.events {
				eprintln!("  ev {}", e);
			}
		}
		j.nontrivial = false;
		return j;
	}
	let ops = out.ops;
	let model = out.model;
	if let Ok(f) = std::env::var("SKV_DUMP") {
		use std::io::Write;
		static N: std::sync::atomic::AtomicU32 = std::sync::atomic::AtomicU32::new(0);
		let n = N.fetch_add(1, std::sync::atomic::Ordering::SeqCst);
		let mut fh = std::fs::File::create(format!("{}.{}", f, n)).unwrap();
		for e in &out.events {
			writeln!(fh, "ev {}", e).ok();
		}
		for (i, op) in ops.iter().enumerate() {
			let s = match op {
				Op::Write { ino: _, off, data } => format!("write off={} len={} {:?}", off, data.len(), &data[..data.len().min(24)]),
				Op::Create { path, .. } => format!("create {}", path),
				Op::Fsync { .. } => "fsync".to_string(),
				Op::Truncate { len, .. } => format!("truncate {}", len),
				o => o.short(),
			};
			writeln!(fh, "op {} {}", i, s).ok();
		}
	}
	j.count("ops_traced", ops.len() as u64);
	j.count("commits", model.commits.len() as u64);
	let base = Image::default();
	let points = if explicit.is_empty() { choose_points(&ops, max_points, &mut rng) } else { explicit.clone() };
	let deep = focus == Focus::C07;
	let v = Sweep { focus, j: &mut j, deep }.run(plan, &base, &ops, &model, &points, &tear, 1);
	j.nontrivial = model.commits.len() >= 2 && out.stats.flushes + out.stats.labels.get("apply.arena_full").copied().unwrap_or(0) > 0;
	j.sig = crate::disk::digest(&ops);
	if v.is_some() {
		j.violation = v;
		let _ = std::fs::remove_dir_all(&root);
		return j;
	}

	// generation 2: crash -> recover -> commit -> crash
	if let Some(p2) = &plan.twin {
		let sel = plan.params.get("gen2_point_sel").copied().unwrap_or(0) as usize;
		let n1 = if ops.is_empty() { 0 } else { sel % (ops.len() + 1) };
		let cm = if plan.params.get("gen2_model").copied().unwrap_or(0) == 1 && focus != Focus::C10 { CrashModel::PowerLoss } else { CrashModel::Process };
		let (lo, hi) = window(&model, n1, cm);
		if let Ok(dir) = build_image(&base, &ops, n1, cm, &tear, "g2db") {
			let base2 = Image::from_dir(&dir);
			let mut p2 = (**p2).clone();
			p2.params.insert("settle_lo".into(), lo as i64);
			p2.params.insert("settle_hi".into(), hi as i64);
			let s2 = run_session(&p2, &dir, End::Crash, Some(model.clone()));
			let out2 = s2.outcome;
			merge_stats(&mut j, &out2.stats);
			j.count("generation2_sessions", 1);
			match &out2.violation {
				Some(v) => {
					// recovery-rule violations found while settling belong to the focus
					if owns(focus, &v.class, lo) {
						let mut explained = v.explained.clone();
						if explained.is_none() && crate::recovery::index_torn_by_power_loss(&plan.opts, cm == CrashModel::PowerLoss, v) {
							explained = Some("version_index_torn_by_power_loss".into());
						}
						j.violation = Some(Violation { class: v.class.clone(), detail: format!("generation 2 (after {:?} at op {}): {}", cm, n1, v.detail), explained });
					} else {
						j.count(&format!("other_property.{}", v.class), 1);
					}
				}
				None => {
					let ops2 = out2.ops;
					let model2 = out2.model;
					j.count("ops_traced", ops2.len() as u64);
					let pts2 = choose_points(&ops2, max_points / 2 + 4, &mut rng);
					let v = Sweep { focus, j: &mut j, deep }.run(&p2, &base2, &ops2, &model2, &pts2, &tear, 2);
					j.violation = v;
				}
			}
			let _ = std::fs::remove_dir_all(&dir);
		}
	}
	let _ = std::fs::remove_dir_all(&root);
	j
}

pub fn merge_stats(j: &mut Judged, s: &crate::exec::Stats) {
	j.count("steps", s.steps);
	j.count("nested_steps", s.nested_steps);
	j.count("commits_ok", s.commits_ok);
	j.count("commits_conflict", s.commits_conflict);
	j.count("commits_retry", s.commits_retry);
	j.count("commits_err", s.commits_err);
	j.count("reads", s.reads);
	j.count("probes", s.probes);
	j.count("cursor_ops", s.cursor_ops);
	j.count("level_shape_changes", s.shape_changes);
	j.count("flushes", s.flushes);
	j.count("reopens", s.reopens);
	j.count("sim_time_ns", s.sim_time_ns);
	j.count("background_errors", s.bg_errors);
	for (l, n) in &s.labels {
		j.count(&format!("probe.{}", l), *n);
	}
	for sh in &s.level_shapes {
		j.set("level_shapes", sh.clone());
	}
	j.set("interleavings", format!("{:x}", s.interleaving));
}

fn cases_c02(t: Tier) -> u64 {
	match t {
		Tier::Quick => 3200,
		Tier::Thorough => 24000,
	}
}
fn cases_c07(t: Tier) -> u64 {
	match t {
		Tier::Quick => 2000,
		Tier::Thorough => 16000,
	}
}

const COMPONENTS: &str = "real: all of surrealkv (commit pipeline, WAL, memtables, flush, compaction, manifest, recovery, repair), std::fs, tokio current_thread runtime; simulated: durability semantics of the disk (op log + crash images), clock, OS randomness, pid, order of task steps; stubbed: nothing";

pub fn c02() -> CheckDef {
	CheckDef {
		id: "C02",
		level: "fault_enumeration",
		rule: "a case = one generated write workload (tiny memtables, real or gated background flush/compaction, clean reopens) traced through the libc seam, then crash images at every (thorough) or a stratified sample (quick) of file-operation boundaries under process-crash and power-loss (none / torn-prefix survival) models, each opened by the real store and compared with the recovery rule; half the cases continue on one image for a second generation. evaluations = crash images checked. non-trivial = ≥2 commits and at least one memtable rotation or flush; distinct = distinct op-log digests",
		assumptions: &[
			"power-loss adversary is the property's: namespace ops kept in order, per file only fsynced data guaranteed, a prefix of unsynced writes may survive, last one torn",
			"tmpfs stands in for the page cache; interposer completeness is self-checked (op log replay == directory)",
			"execution is serialised on one thread; commit phases are atomic unless a plan parks them at yield points",
		],
		components: COMPONENTS,
		cases: cases_c02,
		gen: |s, c, t| gen(s, c, t, "C02", Focus::C02),
		judge,
		shrink_budget: 120,
	}
}

pub fn c03() -> CheckDef {
	CheckDef {
		id: "C03",
		level: "fault_enumeration",
		rule: "as C02 with workloads biased to multi-key transactions (2-8 writes, deletes, overwrites); the oracle is prefix-consistency: recovered contents must equal model.live(p) for one commit boundary p in the allowed window, by forward scan, backward scan and point gets. evaluations = crash images checked. non-trivial = ≥2 commits and a rotation or flush; distinct = distinct op-log digests",
		assumptions: &["same crash models and seams as C02"],
		components: COMPONENTS,
		cases: cases_c02,
		gen: |s, c, t| gen(s, c, t, "C03", Focus::C03),
		judge,
		shrink_budget: 120,
	}
}

pub fn c07() -> CheckDef {
	CheckDef {
		id: "C07",
		level: "fault_enumeration",
		rule: "as C02 plus clean-close images; every image must open; after a successful recovery a probe commit to existing keys must read back as newest (before and after a flush), the store must close and reopen twice with identical contents; generation 2 crash points inside the recovery of generation 1 must recover to the same state. evaluations = images opened. non-trivial = ≥2 commits and a rotation or flush; distinct = distinct op-log digests",
		assumptions: &["same crash models and seams as C02", "storage-format options are fixed across the reopens of one image"],
		components: COMPONENTS,
		cases: cases_c07,
		gen: |s, c, t| gen(s, c, t, "C07", Focus::C07),
		judge,
		shrink_budget: 80,
	}
}
