//! Checks decided inside one (or two twin) fault-free simulated sessions by comparing the
//! real store with the reference model at every operation: C01, C04, C05, C06, C08, C09.

use std::collections::BTreeMap;

use crate::case::{fresh_dir, run_session, End};
use crate::exec::Violation;
use crate::framework::{CheckDef, Judged, Tier};
use crate::gen::*;
use crate::model::{CurOp, Kind, ModeS, Status};
use crate::disk::{FaultAction, FaultAt, FaultKind, FaultSpec};
use crate::plan::*;
use crate::rng::Rng;

use super::crash::merge_stats;

const COMPONENTS: &str = "real: all of surrealkv (transactions, snapshots, iterators, commit pipeline, oracle, memtables, tables, flush, compaction, vlog), std::fs, tokio current_thread runtime and sync primitives; simulated: order of actor / background-task steps (cooperative scheduler at guarded yield points, nested execution inside synchronous windows), clock, OS randomness, disk durability bookkeeping; stubbed: nothing";

fn owned(check: &str, class: &str) -> bool {
	let reads = matches!(class, "read_mismatch" | "scan_mismatch" | "cursor_mismatch" | "read_error" | "panic");
	match check {
		"C01" => reads,
		"C05" => reads || class.starts_with("horizon_") || class == "commit_without_seq",
		"C04" => matches!(class, "lost_update" | "spurious_conflict" | "spurious_retry" | "final_state_mismatch" | "commit_error" | "panic" | "commit_without_seq"),
		"C06" => reads || matches!(class, "background_error" | "reopen_failed" | "close_failed" | "twin_mismatch"),
		"C08" => reads || matches!(class, "wrong_error" | "missing_error" | "unexpected_error" | "commit_error"),
		"C09" => matches!(class, "cursor_mismatch" | "read_error" | "panic" | "scan_mismatch"),
		"C17" => matches!(class, "no_progress" | "hang" | "panic" | "close_failed" | "deadlock"),
		"C10" => reads || matches!(class, "get_at_mismatch" | "history_mismatch" | "history_order" | "background_error" | "reopen_failed"),
		"C11" => reads || matches!(class, "background_error" | "reopen_failed" | "close_failed"),
		"C14" => reads || class.starts_with("horizon_") || matches!(class, "history_mismatch" | "history_order" | "checkpoint_failed" | "restore_failed" | "background_error" | "reopen_failed" | "commit_error" | "standalone_mismatch" | "spurious_retry" | "spurious_conflict"),
		_ => true,
	}
}

fn base_plan(id: &str, case_seed: u64, opts: StoreOpts, keys: Vec<Vec<u8>>, steps: Vec<Step>) -> Plan {
	Plan {
		check: id.to_string(),
		case_seed,
		opts,
		keys,
		steps,
		windows: vec![],
		async_yields: false,
		gate_tasks: false,
		faults: vec![],
		crash: None,
		params: BTreeMap::new(),
		twin: None,
	}
}

/// Conflict history checker (C04) over the model's commit list.
pub(crate) fn conflict_check(model: &crate::model::Model, failed: &[crate::exec::FailedCommit], plan: &Plan) -> Option<Violation> {
	let keys_of = |c: &crate::model::Commit| -> Vec<Vec<u8>> { c.writes.iter().map(|w| w.key.clone()).collect() };
	let committed: Vec<&crate::model::Commit> = model.commits.iter().filter(|c| c.status == Status::Acked).collect();
	for t2 in &committed {
		for t1 in &committed {
			if t1.txn == t2.txn {
				continue;
			}
			// T1 committed after T2 began and before T2 committed, same key => lost update
			if t2.start_seq < t1.last_seq && t1.last_seq < t2.last_seq {
				let k1 = keys_of(t1);
				if keys_of(t2).iter().any(|k| k1.contains(k)) {
					return Some(Violation::new(
						"lost_update",
						format!(
							"txn{} (start horizon {}, committed at {}..{}) and txn{} (committed at {}..{}) overlap in time, write a common key, and both committed",
							t2.txn, t2.start_seq, t2.first_seq, t2.last_seq, t1.txn, t1.first_seq, t1.last_seq
						),
					));
				}
			}
		}
	}
	// conflicts must have a cause
	for f in failed {
		match f.class.as_str() {
			"Conflict" => {
				// a commit that itself FAILED (I/O error after its keys were stamped) is a cause only
				// while its failure had not yet been reported when this commit was invoked: after
				// that its stamps must be gone
				let cause = model.commits.iter().any(|c| {
					c.txn != f.txn
						&& c.last_seq > f.start_seq
						&& c.writes.iter().any(|w| f.keys.contains(&w.key))
						&& (c.status != Status::Failed || f.op_at_invoke == 0 || c.op_at_ack.map(|p| p > f.op_at_invoke).unwrap_or(true))
				});
				if !cause {
					return Some(Violation::new(
						"spurious_conflict",
						format!("txn{} (start horizon {}, keys {:?}) got a write conflict although no transaction that wrote one of its keys was sequenced after it began", f.txn, f.start_seq, f.keys.iter().map(|k| crate::exec::hex(k)).collect::<Vec<_>>()),
					));
				}
			}
			"Retry" => {
				// the conflict map is pruned up to the oldest ACTIVE transaction's start, and a
				// transaction is registered as active from begin to commit: its own window
				// cannot be pruned under it. Only a restore (which rewinds the counters and
				// resets the map) legitimately produces a retry.
				// (C14's plans never keep a transaction open across a restore - the executor
				// drops what was begun before it - so there a retry has no excuse at all.)
				if plan.check == "C14" || !plan.steps.iter().any(|s| matches!(s, Step::Restore | Step::RestoreB)) {
					return Some(Violation::new("spurious_retry", format!("txn{} (start horizon {}) got TransactionRetry: its conflict-tracking window was pruned although it was registered as active the whole time and no restore happened", f.txn, f.start_seq)));
				}
			}
			_ => {}
		}
	}
	None
}

/// C10's domain: at most one write per key per transaction (two writes of one key in one
/// transaction are merged by write-set rules no property pins down, and would tie on the
/// commit timestamp). Shrinking must not leave this domain.
fn c10_in_domain(plan: &Plan) -> bool {
	let mut seen: std::collections::BTreeMap<u8, Vec<u16>> = Default::default();
	for s in &plan.steps {
		match s {
			Step::Begin { a, .. } | Step::Commit { a, .. } | Step::Rollback { a } | Step::DropTxn { a } => {
				seen.remove(a);
			}
			Step::Set { a, k, .. } | Step::Delete { a, k, .. } | Step::SoftDelete { a, k, .. } | Step::Replace { a, k, .. } => {
				let v = seen.entry(*a).or_default();
				if v.contains(k) {
					return false;
				}
				v.push(*k);
			}
			_ => {}
		}
	}
	if plan.params.get("ooo").copied().unwrap_or(0) == 1 {
		// out-of-order timestamps are the point of this case; it has neither hard deletes
		// nor replaces (a reduction cannot add any)
		return true;
	}
	// timestamps per key must be non-decreasing in commit order (the property's domain).
	// Explicit timestamps are generated relative to the commit count and a write without one
	// takes the commit time (the simulated clock moves 1000 ns per commit), so a reduction
	// that drops commits can put a commit-time write below an earlier explicit timestamp.
	let mut clock: u64 = 0;
	let mut pending: std::collections::BTreeMap<u8, Vec<(u16, Option<u64>)>> = Default::default();
	let mut last_ts: std::collections::BTreeMap<u16, u64> = Default::default();
	for s in &plan.steps {
		match s {
			Step::Begin { a, .. } => {
				pending.insert(*a, Vec::new());
			}
			Step::Rollback { a } | Step::DropTxn { a } => {
				pending.remove(a);
			}
			Step::Set { a, k, ts, .. } | Step::Delete { a, k, ts } | Step::SoftDelete { a, k, ts } => {
				if let Some(v) = pending.get_mut(a) {
					v.push((*k, *ts));
				}
			}
			Step::Replace { a, k, .. } => {
				if let Some(v) = pending.get_mut(a) {
					v.push((*k, None));
				}
			}
			Step::Advance { ns } => clock += *ns,
			Step::Commit { a, .. } => {
				if let Some(ws) = pending.remove(a) {
					clock += 1000;
					for (k, ts) in ws {
						let t = ts.unwrap_or(clock);
						if let Some(prev) = last_ts.get(&k) {
							if t < *prev {
								return false;
							}
						}
						last_ts.insert(k, t);
					}
				}
			}
			_ => {}
		}
	}
	true
}

fn judge(plan: &Plan, _tier: Tier) -> Judged {
	let mut j = Judged::default();
	if plan.check == "C10" && (!c10_in_domain(plan) || plan.twin.as_ref().map(|t| !c10_in_domain(t)).unwrap_or(false)) {
		return j;
	}
	let plans: Vec<&Plan> = std::iter::once(plan).chain(plan.twin.iter().map(|b| &**b)).collect();
	let mut sig = 0u64;
	for (pi, p) in plans.iter().enumerate() {
		let root = fresh_dir("s");
		let s = run_session(p, &root, End::Close, None);
		let _ = std::fs::remove_dir_all(&root);
		let out = s.outcome;
		merge_stats(&mut j, &out.stats);
		j.evaluations += 1;
		sig ^= crate::disk::digest(&out.ops).rotate_left(pi as u32 * 7) ^ out.stats.interleaving;
		let st = &out.stats;
		match plan.check.as_str() {
			"C01" => {
				j.nontrivial |= st.reads >= 4 && st.commits_ok >= 2 && (st.flushes > 0 || st.shape_changes > 0);
			}
			"C04" | "C05" | "C17" => {
				j.nontrivial |= st.commits_ok + st.commits_conflict >= 3 && st.interleaving != 0;
			}
			"C09" => j.nontrivial |= st.cursor_ops >= 5,
			_ => j.nontrivial |= st.commits_ok >= 2 && st.reads >= 2,
		}
		if let Some(v) = out.violation {
			if std::env::var("SKV_DEBUG").is_ok() {
				for e in out.events.iter().rev().take(60).rev() {
					eprintln!("  ev {}", e);
				}
			}
			if owned(&plan.check, &v.class) {
				j.violation = Some(Violation { class: v.class, detail: format!("{}{}", if pi == 1 { "[twin physical plan] " } else { "" }, v.detail), explained: v.explained });
				break;
			} else {
				j.count(&format!("other_property.{}", v.class), 1);
				continue;
			}
		}
		if plan.check == "C04" || plan.check == "C14" {
			if let Some(v) = conflict_check(&out.model, &out.failed_commits, p) {
				j.violation = Some(v);
				break;
			}
			for f in &out.failed_commits {
				j.count(&format!("commit_failed.{}", f.class), 1);
			}
		}
	}
	j.sig = sig;
	j
}

// ---------------------------------------------------------------- C06

/// One logical history; the physical plan is drawn separately.
fn logical_history(rng: &mut Rng, nkeys: u16, tags: &mut TagGen, n_txns: u64, budget: u32, versioning: bool, held_readers: bool) -> Vec<Step> {
	let mut steps = Vec::new();
	let mut reader_open = [false; 4];
	for i in 0..n_txns {
		steps.push(Step::Begin { a: 0, mode: ModeS::ReadWrite });
		let n = rng.range(1, 4);
		let mut left = budget;
		for _ in 0..n {
			if left < 70 {
				break;
			}
			let k = rng.below(nkeys as u64) as u16;
			match rng.below(12) {
				0 | 1 => steps.push(Step::Delete { a: 0, k, ts: None }),
				2 => steps.push(Step::SoftDelete { a: 0, k, ts: None }),
				3 if versioning => {
					let len = value_len(rng).min(left - 60).max(8);
					steps.push(Step::Replace { a: 0, k, v: tags.next(len) });
					left = left.saturating_sub(60 + len);
				}
				_ => {
					let len = value_len(rng).min(left - 60).max(8);
					steps.push(Step::Set { a: 0, k, v: tags.next(len), ts: None });
					left = left.saturating_sub(60 + len);
				}
			}
		}
		steps.push(Step::Commit { a: 0, sync: false });
		// queries after every k-th operation
		if i % 3 == 2 {
			steps.push(Step::Probe);
		}
		// queries of readers that began earlier and stayed open while later commits, flushes
		// and compactions happened: their answers, too, depend on nothing but the history
		// (a reopen placed in between ends them; the executor then skips their steps)
		if held_readers {
			for a in [1u8, 3u8] {
				if !reader_open[a as usize] {
					if rng.chance(1, 6) {
						steps.push(Step::Begin { a, mode: ModeS::ReadOnly });
						reader_open[a as usize] = true;
					}
				} else {
					match rng.below(10) {
						0..=2 => {
							for _ in 0..rng.range(1, 3) {
								steps.push(Step::Get { a, k: rng.below(nkeys as u64) as u16 });
							}
						}
						3 => steps.push(Step::Scan { a, lo: None, hi: None, rev: rng.chance(1, 2) }),
						4 => {
							steps.push(Step::DropTxn { a });
							reader_open[a as usize] = false;
						}
						_ => {}
					}
				}
			}
		}
	}
	steps.push(Step::Probe);
	if held_readers {
		for a in [1u8, 3u8] {
			if reader_open[a as usize] {
				for k in 0..nkeys {
					steps.push(Step::Get { a, k });
				}
				steps.push(Step::Scan { a, lo: None, hi: None, rev: false });
			}
		}
	}
	steps
}

/// Interleave physical steps into a logical history.
fn with_physical(rng: &mut Rng, logical: &[Step], density: u64, allow_reopen: bool) -> Vec<Step> {
	let mut out = Vec::new();
	for s in logical {
		out.push(s.clone());
		if matches!(s, Step::Commit { .. } | Step::Probe) && rng.below(100) < density {
			let n = rng.range(1, 3);
			for _ in 0..n {
				out.push(physical_step(rng, allow_reopen));
			}
		}
	}
	out.push(Step::FlushAll);
	out.push(Step::CompactAll);
	out.push(Step::Probe);
	out.push(Step::Reopen);
	out.push(Step::Probe);
	out
}

fn gen_c06(case_seed: u64, _case: u64, tier: Tier) -> Plan {
	let mut rng = Rng::new(case_seed);
	let mut opts = random_opts(&mut rng);
	if rng.chance(1, 4) {
		with_vlog(&mut rng, &mut opts);
	}
	// background tasks never run on their own here: placement is the plan's
	let nkeys = rng.range(3, 12) as u16;
	let adv = rng.chance(1, 4);
	let keys = key_universe(&mut rng, nkeys as usize, adv);
	let nkeys = keys.len() as u16;
	let mut tags = TagGen(0);
	let n = match tier {
		Tier::Quick => rng.range(6, 40),
		Tier::Thorough => rng.range(6, 70),
	};
	let budget = txn_budget(opts.memtable);
	let logical = logical_history(&mut rng, nkeys, &mut tags, n, budget, false, true);
	let a = with_physical(&mut rng, &logical, 45, true);
	let mut opts_b = random_opts(&mut rng);
	opts_b.vlog = opts.vlog;
	opts_b.vlog_threshold = opts.vlog_threshold;
	opts_b.vlog_max_file = opts.vlog_max_file;
	if opts_b.memtable < opts.memtable {
		opts_b.memtable = opts.memtable; // the logical history's transactions must fit
	}
	let b = with_physical(&mut rng, &logical, 25, true);
	// "what is cached": with versioning on, history queries (whole range and timestamp
	// windows; their answers are C10's business and are not judged here) run before some of
	// the probes and fill the caches through another code path than gets and scans do
	let warm = |rng: &mut Rng, steps: Vec<Step>| -> Vec<Step> {
		let mut out = Vec::new();
		for s in steps {
			if matches!(s, Step::Probe) && rng.chance(1, 2) {
				out.push(Step::Begin { a: 2, mode: ModeS::ReadOnly });
				let ts_range = if rng.chance(2, 3) { Some((0u64, 1u64 << 40)) } else { None };
				out.push(Step::History { a: 2, lo: 0, hi: nkeys - 1, tomb: rng.chance(1, 2), ts_range, limit: None, rev: rng.chance(1, 4) });
				out.push(Step::DropTxn { a: 2 });
			}
			out.push(s);
		}
		out
	};
	let (a, b) = (warm(&mut rng, a), warm(&mut rng, b));
	let mut pa = base_plan("C06", case_seed, opts, keys.clone(), a);
	pa.gate_tasks = true; // store's own tasks stay parked: only planned placements
	pa.params.insert("history_unjudged".into(), 1);
	let mut pb = base_plan("C06", case_seed ^ 0xb, opts_b, keys, b);
	pb.params.insert("history_unjudged".into(), 1);
	pb.gate_tasks = rng.chance(1, 2);
	pa.twin = Some(Box::new(pb));
	pa
}

// ---------------------------------------------------------------- C09

fn gen_c09(case_seed: u64, _case: u64, tier: Tier) -> Plan {
	let mut rng = Rng::new(case_seed);
	let mut opts = random_opts(&mut rng);
	opts.block = *rng.pick(&[64usize, 64, 128, 256]);
	opts.partition = *rng.pick(&[64usize, 64, 128]);
	if rng.chance(1, 5) {
		with_vlog(&mut rng, &mut opts);
	}
	let nkeys = rng.range(4, 16) as u16;
	let adv = rng.chance(1, 3);
	let keys = key_universe(&mut rng, nkeys as usize, adv);
	let nkeys = keys.len() as u16;
	let mut tags = TagGen(0);
	let budget = txn_budget(opts.memtable);
	let n = rng.range(5, 30);
	let mut steps = Vec::new();
	// layout: versions and tombstones spread over levels, immutables, active memtable
	for _ in 0..n {
		write_txn(&mut rng, 0, nkeys, &mut tags, 4, 0, budget, &mut steps);
		if rng.chance(2, 5) {
			steps.push(physical_step(&mut rng, false));
		}
	}
	// reader with a write-set on top
	let cursor_runs = match tier {
		Tier::Quick => 8,
		Tier::Thorough => 16,
	};
	for _ in 0..rng.range(1, 3) {
		steps.push(Step::Begin { a: 1, mode: ModeS::ReadWrite });
		for _ in 0..rng.below(5) {
			let k = rng.below(nkeys as u64) as u16;
			match rng.below(4) {
				0 => steps.push(Step::Delete { a: 1, k, ts: None }),
				1 => steps.push(Step::SoftDelete { a: 1, k, ts: None }),
				_ => steps.push(Step::Set { a: 1, k, v: tags.next(rng.range(8, 60) as u32), ts: None }),
			}
		}
		for _ in 0..cursor_runs {
			let (lo, hi) = match rng.below(10) {
				0 => (None, None),
				1 => (Some(rng.below(nkeys as u64) as u16), None),
				2 => (None, Some(rng.below(nkeys as u64) as u16)),
				3 => {
					let k = rng.below(nkeys as u64) as u16;
					(Some(k), Some(k)) // empty
				}
				4 => {
					let a = rng.below(nkeys as u64) as u16;
					let b = rng.below(nkeys as u64) as u16;
					(Some(a.max(b)), Some(a.min(b))) // inverted (or empty)
				}
				_ => {
					let a = rng.below(nkeys as u64) as u16;
					let b = rng.below(nkeys as u64) as u16;
					(Some(a.min(b)), Some(a.max(b)))
				}
			};
			let len = rng.range(3, 30) as usize;
			steps.push(Step::Cursor { a: 1, lo, hi, prog: cursor_prog(&mut rng, nkeys, len) });
		}
		steps.push(Step::Rollback { a: 1 });
		if rng.chance(1, 2) {
			steps.push(physical_step(&mut rng, false));
		}
	}
	let mut p = base_plan("C09", case_seed, opts, keys, steps);
	p.gate_tasks = true;
	p
}

// ---------------------------------------------------------------- C08

fn gen_c08(case_seed: u64, _case: u64, _tier: Tier) -> Plan {
	let mut rng = Rng::new(case_seed);
	let mut opts = random_opts(&mut rng);
	opts.memtable = *rng.pick(&[4096usize, 8192]);
	let mut keys = key_universe(&mut rng, 10, true);
	keys.insert(0, Vec::new()); // index 0 = the empty key (must be rejected)
	let nkeys = keys.len() as u16;
	let mut tags = TagGen(0);
	let mut steps = Vec::new();
	// a layout underneath
	for _ in 0..rng.range(2, 8) {
		steps.push(Step::Begin { a: 0, mode: ModeS::ReadWrite });
		for _ in 0..rng.range(1, 3) {
			steps.push(Step::Set { a: 0, k: rng.range(1, nkeys as u64 - 1) as u16, v: tags.next(rng.range(0, 40) as u32), ts: None });
		}
		steps.push(Step::Commit { a: 0, sync: false });
		if rng.chance(1, 3) {
			steps.push(physical_step(&mut rng, false));
		}
	}
	// transaction programs
	for _ in 0..rng.range(1, 4) {
		let mode = *rng.pick(&[ModeS::ReadWrite, ModeS::ReadWrite, ModeS::ReadWrite, ModeS::ReadOnly, ModeS::WriteOnly]);
		steps.push(Step::Begin { a: 1, mode });
		let len = rng.range(3, 40);
		let explicit_ts = rng.chance(1, 3);
		// with explicit timestamps concentrate on few keys so one key gets several pending versions
		let hot = rng.range(1, 3) as u16;
		let mut ended = false;
		for _ in 0..len {
			let k = if rng.chance(1, 25) {
				0
			} else if explicit_ts && rng.chance(2, 3) {
				rng.range(1, hot as u64) as u16
			} else {
				rng.range(1, nkeys as u64 - 1) as u16
			};
			// explicit-timestamp writes: several versions of one key may be pending inside one
			// savepoint level (write() keeps entries whose explicit timestamps differ)
			let ts = if explicit_ts && rng.chance(1, 2) { Some(rng.range(1, 6)) } else { None };
			let s = match rng.below(20) {
				0..=5 => Step::Set { a: 1, k, v: tags.next(if rng.chance(1, 8) { 0 } else { rng.range(1, 50) as u32 }), ts },
				6 => Step::Delete { a: 1, k, ts },
				7 => Step::Replace { a: 1, k, v: tags.next(rng.range(1, 50) as u32) },
				8 => Step::SoftDelete { a: 1, k, ts },
				9..=11 => Step::Get { a: 1, k },
				// read-your-writes through a cursor, with direction changes over keys that are
				// both in the snapshot and pending in this transaction
				12 => {
					let len = rng.range(3, 12) as usize;
					Step::Cursor { a: 1, lo: None, hi: None, prog: cursor_prog(&mut rng, nkeys, len) }
				}
				13 => Step::Scan { a: 1, lo: None, hi: None, rev: rng.chance(1, 2) },
				14 | 15 => Step::Savepoint { a: 1 },
				16 | 17 => Step::RollbackSp { a: 1 },
				18 => {
					// observer: nothing pending is visible to others
					Step::Probe
				}
				_ => {
					ended = true;
					if rng.chance(1, 2) {
						Step::Rollback { a: 1 }
					} else {
						Step::Commit { a: 1, sync: false }
					}
				}
			};
			steps.push(s);
			if ended {
				// operations after close must be rejected
				for _ in 0..rng.below(4) {
					let k = rng.range(1, nkeys as u64 - 1) as u16;
					steps.push(match rng.below(5) {
						0 => Step::Set { a: 1, k, v: tags.next(8), ts: None },
						1 => Step::Get { a: 1, k },
						2 => Step::Savepoint { a: 1 },
						3 => Step::RollbackSp { a: 1 },
						_ => Step::Commit { a: 1, sync: false },
					});
				}
				break;
			}
		}
		if !ended {
			steps.push(if rng.chance(1, 2) { Step::Commit { a: 1, sync: false } } else { Step::DropTxn { a: 1 } });
		}
		steps.push(Step::Probe);
		if rng.chance(1, 2) {
			steps.push(physical_step(&mut rng, true));
			steps.push(Step::Probe);
		}
	}
	let mut p = base_plan("C08", case_seed, opts, keys, steps);
	p.gate_tasks = true;
	p
}

// ---------------------------------------------------------------- C01

fn gen_c01(case_seed: u64, _case: u64, tier: Tier) -> Plan {
	let mut rng = Rng::new(case_seed);
	let mut opts = random_opts(&mut rng);
	opts.level_count = *rng.pick(&[1u8, 2, 2, 3]);
	opts.l0_max = *rng.pick(&[1usize, 1, 2]);
	opts.max_bytes_level = *rng.pick(&[256u64, 512, 2048]);
	if rng.chance(1, 3) {
		with_vlog(&mut rng, &mut opts);
	}
	let nkeys = rng.range(4, 12) as u16;
	let keys = key_universe(&mut rng, nkeys as usize, false);
	let nkeys = keys.len() as u16;
	let mut tags = TagGen(0);
	let budget = txn_budget(opts.memtable);
	let n_readers = rng.range(2, 5) as u8; // actors 1..=n_readers; actor 0 writes
	let mut steps = Vec::new();
	let rounds = match tier {
		Tier::Quick => rng.range(8, 30),
		Tier::Thorough => rng.range(8, 60),
	};
	// seed data
	for _ in 0..rng.range(1, 5) {
		write_txn(&mut rng, 0, nkeys, &mut tags, 3, 0, budget, &mut steps);
	}
	let mut open: Vec<bool> = vec![false; n_readers as usize + 1];
	let mut cursor_open: Vec<bool> = vec![false; n_readers as usize + 1];
	for _ in 0..rounds {
		match rng.below(10) {
			0..=2 => write_txn(&mut rng, 0, nkeys, &mut tags, 3, 0, budget, &mut steps),
			3 | 4 => {
				let r = rng.range(1, 3);
				for _ in 0..r {
					steps.push(physical_step(&mut rng, false));
				}
			}
			_ => {
				let a = rng.range(1, n_readers as u64) as u8;
				if !open[a as usize] {
					steps.push(Step::Begin { a, mode: if rng.chance(1, 2) { ModeS::ReadOnly } else { ModeS::ReadWrite } });
					open[a as usize] = true;
					// readers sharing a start point: begin another one right away
					if rng.chance(1, 3) {
						let b = rng.range(1, n_readers as u64) as u8;
						if !open[b as usize] {
							steps.push(Step::Begin { a: b, mode: ModeS::ReadOnly });
							open[b as usize] = true;
						}
					}
				} else {
					match rng.below(10) {
						0..=3 => steps.push(Step::Get { a, k: rng.below(nkeys as u64) as u16 }),
						4 | 5 => steps.push(Step::Scan { a, lo: None, hi: None, rev: rng.chance(1, 2) }),
						6 => {
							if !cursor_open[a as usize] {
								steps.push(Step::OpenCursor { a, lo: None, hi: None });
								steps.push(Step::CursorOp { a, op: if rng.chance(1, 2) { CurOp::SeekFirst } else { CurOp::SeekLast } });
								cursor_open[a as usize] = true;
							} else {
								steps.push(Step::CursorOp { a, op: *rng.pick(&[CurOp::Next, CurOp::Next, CurOp::Prev, CurOp::SeekFirst]) });
							}
						}
						7 => {
							if cursor_open[a as usize] {
								for _ in 0..rng.range(1, 4) {
									let sk = rng.below(nkeys as u64) as u16;
									steps.push(Step::CursorOp { a, op: *rng.pick(&[CurOp::Next, CurOp::Prev, CurOp::Seek(sk)]) });
								}
							} else {
								steps.push(Step::Scan { a, lo: Some(0), hi: Some(nkeys - 1), rev: false });
							}
						}
						8 => {
							steps.push(Step::Cursor { a, lo: None, hi: None, prog: cursor_prog(&mut rng, nkeys, 8) });
						}
						_ => {
							steps.push(Step::DropTxn { a });
							open[a as usize] = false;
							cursor_open[a as usize] = false;
						}
					}
				}
			}
		}
	}
	// final: every reader re-reads everything
	for a in 1..=n_readers {
		if open[a as usize] {
			steps.push(Step::Scan { a, lo: None, hi: None, rev: false });
			for k in 0..nkeys {
				steps.push(Step::Get { a, k });
			}
		}
	}
	let mut p = base_plan("C01", case_seed, opts, keys, steps);
	p.gate_tasks = true;
	// synchronous windows
	let mut windows = Vec::new();
	if rng.chance(2, 3) {
		// inside Transaction::new after the horizon load: commit + flush + full compaction
		let nth = rng.range(3, 12) as u32;
		let mut ws = Vec::new();
		write_txn(&mut rng, 0, nkeys, &mut tags, 2, 0, budget, &mut ws);
		ws.push(Step::FlushAll);
		ws.push(Step::CompactAll);
		windows.push(Window { label: "txn.new.post_load".into(), nth, steps: ws.clone() });
		if rng.chance(1, 2) {
			windows.push(Window { label: "txn.new.post_register".into(), nth: nth + rng.range(1, 5) as u32, steps: ws });
		}
	}
	if rng.chance(2, 3) {
		// inside a compaction after the snapshot list was captured: a reader begins, commits happen
		let nth = rng.range(1, 4) as u32;
		let a = n_readers + 1;
		let mut ws = vec![Step::Begin { a, mode: ModeS::ReadOnly }, Step::Get { a, k: rng.below(nkeys as u64) as u16 }];
		write_txn(&mut rng, 0, nkeys, &mut tags, 2, 0, budget, &mut ws);
		windows.push(Window { label: "compact.post_snapshots".into(), nth, steps: ws });
		// that reader keeps reading afterwards
		p.steps.push(Step::Scan { a, lo: None, hi: None, rev: false });
		for k in 0..nkeys {
			p.steps.push(Step::Get { a, k });
		}
	}
	if rng.chance(1, 2) {
		// between the stages of a point get: rotation + flush move the key's data
		let nth = rng.range(1, 30) as u32;
		windows.push(Window { label: "get.post_active".into(), nth, steps: vec![Step::Rotate, Step::FlushOne] });
		windows.push(Window { label: "get.post_immutables".into(), nth: nth + 3, steps: vec![Step::FlushAll, Step::CompactRound] });
	}
	p.windows = windows;
	p
}

// ---------------------------------------------------------------- C04 / C05

/// Several concurrent committers whose commit phases interleave at the async yield points.
fn gen_concurrent(case_seed: u64, tier: Tier, id: &str) -> Plan {
	let mut rng = Rng::new(case_seed);
	let mut opts = random_opts(&mut rng);
	opts.memtable = *rng.pick(&[1536usize, 2048, 2048, 4096]);
	if id == "C04" {
		opts.oracle_gc = *rng.pick(&[Some(4u32), Some(16), Some(64), None]);
		opts.memtable = 8192;
	}
	let n_actors = rng.range(2, 8) as u8;
	let nkeys = if id == "C04" { rng.range(3, 6) as u16 } else { rng.range(4, 12) as u16 };
	let keys = key_universe(&mut rng, nkeys as usize, false);
	let nkeys = keys.len() as u16;
	let mut tags = TagGen(0);
	let budget = if id == "C05" { txn_budget(opts.memtable) } else { 400 };
	let total = match tier {
		Tier::Quick => rng.range(30, 160),
		Tier::Thorough => rng.range(30, 400),
	};
	#[derive(Clone, Copy, PartialEq)]
	enum St {
		Idle,
		Open,
		Committing,
	}
	let mut st = vec![St::Idle; n_actors as usize];
	let mut left = vec![0u32; n_actors as usize];
	let mut steps = Vec::new();
	// a third of C04's cases inject commit-log write errors (rollback paths of the pipeline)
	let c04_faults = id == "C04" && rng.chance(1, 3);
	// a quarter of C05's cases: transient commit-log write errors while other commits are in
	// their apply phase - a failed commit must not move the horizon either
	let c05_faults = id == "C05" && rng.chance(1, 4);
	for _ in 0..total {
		let a = rng.below(n_actors as u64) as u8;
		match st[a as usize] {
			St::Idle => {
				let mode = if id == "C04" && rng.chance(1, 4) { ModeS::WriteOnly } else { ModeS::ReadWrite };
				steps.push(Step::Begin { a, mode });
				st[a as usize] = St::Open;
				left[a as usize] = budget;
			}
			St::Open => {
				if rng.chance(3, 5) && left[a as usize] >= 140 {
					let k = rng.below(nkeys as u64) as u16;
					if id == "C05" && rng.chance(1, 3) {
						// bigger batches with duplicate keys
						let n = rng.range(2, 8);
						let each = (left[a as usize] / n as u32).max(70) - 60;
						for _ in 0..n {
							if left[a as usize] < 70 {
								break;
							}
							let k = rng.below(nkeys as u64) as u16;
							let len = each.min(value_len(&mut rng)).max(8).min(left[a as usize] - 60);
							steps.push(Step::Set { a, k, v: tags.next(len), ts: None });
							left[a as usize] = left[a as usize].saturating_sub(60 + len);
						}
					} else if rng.chance(1, 8) {
						steps.push(Step::Delete { a, k, ts: None });
						left[a as usize] = left[a as usize].saturating_sub(60);
					} else if id == "C04" && rng.chance(1, if c04_faults { 2 } else { 6 }) && left[a as usize] >= 300 {
						// the same key more than once in one batch: written on both sides of a
						// savepoint, or with two explicit timestamps (the conflict map sees the
						// key twice; its bookkeeping for rollbacks must cope)
						if rng.chance(1, 2) {
							steps.push(Step::Set { a, k, v: tags.next(10), ts: None });
							steps.push(Step::Savepoint { a });
							steps.push(Step::Set { a, k, v: tags.next(10), ts: None });
						} else {
							steps.push(Step::Set { a, k, v: tags.next(10), ts: Some(1) });
							steps.push(Step::Set { a, k, v: tags.next(10), ts: Some(2) });
						}
						left[a as usize] = left[a as usize].saturating_sub(160);
					} else {
						let len = value_len(&mut rng).min(left[a as usize] / 2).max(8).min(left[a as usize] - 60);
						steps.push(Step::Set { a, k, v: tags.next(len), ts: None });
						left[a as usize] = left[a as usize].saturating_sub(60 + len);
					}
				} else {
					steps.push(Step::Commit { a, sync: false });
					st[a as usize] = St::Committing;
				}
			}
			St::Committing => {
				steps.push(Step::Poll { a });
				// we do not know when it finishes; an extra Poll on a finished commit is a no-op,
				// and a Begin on a still-committing actor continues the commit instead
				if rng.chance(1, 6) {
					st[a as usize] = St::Idle;
				}
			}
		}
		if rng.chance(1, 4) {
			steps.push(Step::Probe);
		}
		if rng.chance(1, 25) {
			steps.push(physical_step(&mut rng, false));
		}
	}
	steps.push(Step::Probe);
	if c04_faults {
		// failure / rollback paths of the pipeline: transient write errors on the commit log
		// (the conflict map entries of the failing commit are rolled back). Reads are not
		// C04's subject and a failed append has known read-side effects (F5): no probes.
		steps.retain(|s| !matches!(s, Step::Probe));
		let n_f = rng.range(1, 5);
		for _ in 0..n_f {
			let at = rng.below(steps.len() as u64) as usize;
			let action = *rng.pick(&[FaultAction::Eio, FaultAction::Enospc, FaultAction::Short(5)]);
			let spec = FaultSpec { at: FaultAt::Class { kind: FaultKind::Write, class: "wal".into(), nth: rng.range(1, 3) as u32 }, action, persistent: false, spent: false };
			steps.insert(at, Step::Faults { specs: vec![spec] });
		}
	}
	if c05_faults {
		for _ in 0..rng.range(1, 4) {
			let at = rng.below(steps.len() as u64) as usize;
			let action = *rng.pick(&[FaultAction::Eio, FaultAction::Enospc]);
			let spec = FaultSpec { at: FaultAt::Class { kind: FaultKind::Write, class: "wal".into(), nth: rng.range(1, 3) as u32 }, action, persistent: false, spent: false };
			steps.insert(at, Step::Faults { specs: vec![spec] });
		}
	}
	let mut p = base_plan(id, case_seed, opts, keys, steps);
	p.async_yields = true;
	p.gate_tasks = rng.chance(1, 2);
	if id == "C04" && rng.chance(1, 2) {
		// begin window: enough commits to fire an oracle GC between the horizon load and the
		// tracker registration
		let mut ws = Vec::new();
		for _ in 0..rng.range(2, 6) {
			let a = n_actors; // dedicated nested actor
			ws.push(Step::Begin { a, mode: ModeS::WriteOnly });
			ws.push(Step::Set { a, k: rng.below(nkeys as u64) as u16, v: tags.next(10), ts: None });
			ws.push(Step::Commit { a, sync: false });
			for _ in 0..8 {
				ws.push(Step::Poll { a });
			}
		}
		p.windows.push(Window { label: "txn.new.post_load".into(), nth: rng.range(2, 10) as u32, steps: ws });
	}
	if id == "C05" && rng.chance(1, 2) {
		// probe readers right inside the rotation window of an apply
		p.windows.push(Window { label: "apply.arena_full".into(), nth: rng.range(1, 3) as u32, steps: vec![Step::Probe] });
		p.windows.push(Window { label: "apply.post_rotate".into(), nth: rng.range(1, 3) as u32, steps: vec![Step::Probe] });
	}
	if id == "C05" {
		// in the middle of a batch's memtable insert: readers see none of it yet; and (tripwire)
		// the memtable cannot be rotated away under the insert - in the unchanged code the
		// active-memtable lock is held there, so the rotate+flush step does nothing
		for _ in 0..rng.range(1, 4) {
			p.windows.push(Window { label: "memtable.add.entry".into(), nth: rng.range(1, 60) as u32, steps: vec![Step::Probe, Step::RotateFlushIfUnlocked, Step::Probe] });
		}
		// tripwire inside rotate_memtable: only ever reached if the rotated memtable is, for a
		// moment, in neither the active slot nor the immutable list with no lock held
		for nth in 1..=3 {
			p.windows.push(Window { label: "rotate.pre_register".into(), nth, steps: vec![Step::Probe] });
		}
	}
	p
}

// ---------------------------------------------------------------- C10

fn gen_c10(case_seed: u64, case: u64, tier: Tier) -> Plan {
	// (chosen by the case seed, not the case number: the number modulo 4 is constant per
	// worker, which would put all the slow crash cases on four of the sixteen workers)
	if case_seed % 4 == 3 {
		return super::crash::gen_c10_crash(case_seed, case, tier);
	}
	let mut rng = Rng::new(case_seed);
	let mut opts = random_opts(&mut rng);
	opts.versioning = true;
	opts.versioned_index = rng.chance(1, 2);
	// retention: unlimited in two thirds of the cases, otherwise a window of a few commits
	// (the simulated clock moves 1000 ns per commit plus the Advance steps below)
	opts.retention_ns = if rng.chance(1, 3) { *rng.pick(&[8_000u64, 20_000, 50_000]) } else { 0 };
	// out-of-order timestamps (the property allows them with the index enabled): explicit
	// timestamps that do not follow commit order. Kept to sets and soft deletes on an
	// index-backed store with unlimited retention: what a hard delete / replace with an older
	// timestamp erases is pinned down by no property.
	let ooo = rng.chance(1, 6);
	if ooo {
		opts.versioned_index = true;
		opts.retention_ns = 0;
	}
	let finite = opts.retention_ns > 0;
	opts.vlog_max_file = *rng.pick(&[512u64, 4096, 1 << 20]);
	opts.memtable = *rng.pick(&[2048usize, 4096, 8192]);
	let nkeys = rng.range(2, 6) as u16;
	let keys = key_universe(&mut rng, nkeys as usize + 1, false);
	let nkeys = (keys.len() - 1) as u16; // last key only serves as an exclusive upper bound
	let mut tags = TagGen(0);
	let budget = txn_budget(opts.memtable);
	let n = match tier {
		Tier::Quick => rng.range(4, 24),
		Tier::Thorough => rng.range(4, 48),
	};
	let mut logical: Vec<Step> = Vec::new();
	let mut used_ts: Vec<u64> = Vec::new();
	// the simulated clock as the executor will see it (explicit timestamps follow it so that
	// timestamps per key never decrease)
	let mut clock: u64 = 0;
	let queries = |rng: &mut Rng, out: &mut Vec<Step>, used: &Vec<u64>| {
		out.push(Step::Begin { a: 1, mode: ModeS::ReadOnly });
		for _ in 0..rng.range(1, 3) {
			let lo = rng.below(nkeys as u64) as u16;
			let hi = rng.range(lo as u64, nkeys as u64) as u16;
			let ts_range = if rng.chance(1, 3) && !used.is_empty() {
				let a = *rng.pick(used);
				let b = *rng.pick(used);
				Some((a.min(b), a.max(b)))
			} else {
				None
			};
			let limit = if rng.chance(1, 5) { Some(rng.range(1, 5) as u32) } else { None };
			out.push(Step::History { a: 1, lo, hi, tomb: rng.chance(1, 2), ts_range, limit, rev: rng.chance(1, 3) });
		}
		out.push(Step::History { a: 1, lo: 0, hi: nkeys, tomb: true, ts_range: None, limit: None, rev: false });
		for _ in 0..rng.range(1, 4) {
			let k = rng.below(nkeys as u64) as u16;
			let t = if used.is_empty() { 5 } else { (*rng.pick(used) as i64 + rng.range(0, 2) as i64 - 1).max(0) as u64 };
			out.push(Step::GetAt { a: 1, k, ts: t });
		}
		out.push(Step::Scan { a: 1, lo: None, hi: None, rev: false });
		out.push(Step::DropTxn { a: 1 });
	};
	for i in 0..n {
		if finite && rng.chance(1, 4) {
			let ns = *rng.pick(&[2_000u64, 10_000, 30_000]);
			logical.push(Step::Advance { ns });
			clock += ns;
		}
		logical.push(Step::Begin { a: 0, mode: ModeS::ReadWrite });
		let base = clock;
		clock += 1000; // the commit below
		let nw = rng.range(1, 3);
		let mut left = budget;
		let mut touched: Vec<u16> = Vec::new();
		for j in 0..nw {
			if left < 70 {
				break;
			}
			let k = rng.below(nkeys as u64) as u16;
			if touched.contains(&k) {
				continue; // one write per key per transaction: no timestamp ties
			}
			touched.push(k);
			let mut ts = base + 1 + j;
			if ooo {
				// any timestamp, unique per case (no ties)
				loop {
					ts = rng.range(1, 60_000);
					if !used_ts.contains(&ts) {
						break;
					}
				}
			}
			match if ooo { rng.range(1, 2).max(rng.below(12)).max(1) } else { rng.below(12) } {
				0 => logical.push(Step::Delete { a: 0, k, ts: None }),
				1 | 2 => {
					used_ts.push(ts);
					logical.push(Step::SoftDelete { a: 0, k, ts: Some(ts) });
				}
				3 if !ooo => {
					let len = value_len(&mut rng).min(left - 60).max(8);
					used_ts.push(clock);
					logical.push(Step::Replace { a: 0, k, v: tags.next(len) });
					left = left.saturating_sub(60 + len);
				}
				_ => {
					let len = value_len(&mut rng).min(left - 60).max(8);
					used_ts.push(ts);
					logical.push(Step::Set { a: 0, k, v: tags.next(len), ts: Some(ts) });
					left = left.saturating_sub(60 + len);
				}
			}
		}
		logical.push(Step::Commit { a: 0, sync: false });
		if i % 3 == 2 {
			queries(&mut rng, &mut logical, &used_ts);
		}
	}
	queries(&mut rng, &mut logical, &used_ts);
	let a = with_physical(&mut rng, &logical, 40, true);
	// re-query after the final flush / compaction / reopen
	let mut a2 = a.clone();
	queries(&mut rng, &mut a2, &used_ts);
	let mut pa = base_plan("C10", case_seed, opts.clone(), keys.clone(), a2);
	pa.gate_tasks = true;
	// twin: other back-end, other physical plan
	let mut opts_b = opts;
	opts_b.versioned_index = !opts_b.versioned_index;
	let b = with_physical(&mut rng, &logical, 20, true);
	let mut b2 = b;
	queries(&mut rng, &mut b2, &used_ts);
	let mut pb = base_plan("C10", case_seed ^ 0xb, opts_b, keys, b2);
	pb.gate_tasks = true;
	if ooo {
		// the back-end without the index is outside the property's domain for out-of-order
		// timestamps: no twin
		pa.params.insert("ooo".into(), 1);
	} else {
		pa.twin = Some(Box::new(pb));
	}
	pa
}

pub fn c10() -> CheckDef {
	CheckDef {
		id: "C10",
		level: "fault_enumeration",
		rule: "a case = one logical history of timestamped sets / soft deletes / hard deletes / replaces (non-decreasing timestamps per key, one write per key per transaction so that no two versions tie) executed under two physical plans (placements of rotate / flush / compaction / reopen) - one with the B+tree version index, one without - with history_with_options over option combinations (tombstones, ts range, limit; forward and backward), get_at at every used timestamp +-1 and plain scans, before and after flush/compaction/reopen. Every fourth case instead runs the crash engine (C02's) with versioning on (B+tree index in two thirds): crash images at file-operation boundaries - in particular inside a flush, where the version index is updated in place before the manifest switches - are recovered and the full forward and backward history plus get_at at every version timestamp must equal those of the commit prefix the store recovered to. Oracle: model get_at / history (keys ascending, newest first, hard delete and replace erase everything older). non-trivial = >=2 commits and >=2 reads; distinct = op-log digests of both twins",
		assumptions: &["retention 0 (unlimited) only; finite retention is not explored by this check", "with a limit only forward traversals are judged (which end a backward traversal keeps is not pinned down by the property)"],
		components: COMPONENTS,
		cases: |t| cases(t, 16000, 240000),
		gen: gen_c10,
		judge: judge_c10,
		shrink_budget: 250,
	}
}

// ---------------------------------------------------------------- C11

fn gen_c11(case_seed: u64, case: u64, tier: Tier) -> Plan {
	if case % 3 == 2 {
		return super::crash::gen_c11_crash(case_seed, case, tier);
	}
	let mut rng = Rng::new(case_seed);
	let mut opts = random_opts(&mut rng);
	with_vlog(&mut rng, &mut opts);
	opts.memtable = *rng.pick(&[8192usize, 16384]);
	opts.vlog_max_file = *rng.pick(&[200u64, 512, 2048]);
	opts.vlog_checksum_full = rng.chance(1, 2);
	let thr = opts.vlog_threshold as u32;
	let sizes: Vec<u32> = vec![0, 1, thr.saturating_sub(1).max(1), thr, thr + 1, (opts.block as u32 * 4).min(1500), 700];
	let nkeys = rng.range(3, 10) as u16;
	let keys = key_universe(&mut rng, nkeys as usize, false);
	let nkeys = keys.len() as u16;
	let mut tags = TagGen(0);
	let n = match tier {
		Tier::Quick => rng.range(6, 36),
		Tier::Thorough => rng.range(6, 80),
	};
	let mut steps = Vec::new();
	let n_readers = 2u8;
	let mut open = [false; 4];
	// a quarter of the cases: "the running store" includes one that takes a checkpoint and
	// later restores it - value-log file ids are handed out again in the restored timeline,
	// and whatever the store caches per file id must not outlive the restore
	let (cp_at, restore_at) = if rng.chance(1, 4) {
		let c = rng.below(n);
		(c, c + 1 + rng.below(n - c))
	} else {
		(u64::MAX, u64::MAX)
	};
	for i in 0..n {
		if i == cp_at {
			steps.push(Step::Checkpoint);
		}
		if i == restore_at {
			for a in 1..=n_readers {
				if open[a as usize] {
					steps.push(Step::DropTxn { a });
					open[a as usize] = false;
				}
			}
			steps.push(Step::Probe); // reads (and caches) values of the timeline to be discarded
			steps.push(Step::Restore);
			steps.push(Step::Probe);
		}
		steps.push(Step::Begin { a: 0, mode: ModeS::ReadWrite });
		let mut left = 2400u32;
		for _ in 0..rng.range(1, 3) {
			let k = rng.below(nkeys as u64) as u16;
			match rng.below(9) {
				0 => steps.push(Step::Delete { a: 0, k, ts: None }),
				1 => steps.push(Step::SoftDelete { a: 0, k, ts: None }),
				2 | 3 => {
					// replace() carries a value like set() does: it is separated, pointed to and
					// has to keep its value-log file alive in the same way
					let len = (*rng.pick(&sizes)).min(left.saturating_sub(60));
					steps.push(Step::Replace { a: 0, k, v: tags.next(len) });
					left = left.saturating_sub(60 + len);
				}
				_ => {
					let len = (*rng.pick(&sizes)).min(left.saturating_sub(60));
					steps.push(Step::Set { a: 0, k, v: tags.next(len), ts: None });
					left = left.saturating_sub(60 + len);
				}
			}
		}
		steps.push(Step::Commit { a: 0, sync: false });
		if rng.chance(1, 2) {
			steps.push(physical_step(&mut rng, true));
			// after every physical step every value must still be byte-identical
			steps.push(Step::Probe);
		}
		// readers and open cursors held across flush / compaction / clean-up
		let a = 1 + (i % n_readers as u64) as u8;
		if !open[a as usize] && rng.chance(1, 2) {
			steps.push(Step::Begin { a, mode: ModeS::ReadOnly });
			steps.push(Step::OpenCursor { a, lo: None, hi: None });
			steps.push(Step::CursorOp { a, op: CurOp::SeekFirst });
			open[a as usize] = true;
		} else if open[a as usize] {
			match rng.below(4) {
				0 => {
					steps.push(Step::DropTxn { a });
					open[a as usize] = false;
				}
				1 => steps.push(Step::Scan { a, lo: None, hi: None, rev: rng.chance(1, 2) }),
				2 => steps.push(Step::CursorOp { a, op: CurOp::Next }),
				_ => steps.push(Step::Get { a, k: rng.below(nkeys as u64) as u16 }),
			}
		}
	}
	steps.push(Step::FlushAll);
	steps.push(Step::CompactAll);
	steps.push(Step::Probe);
	for a in 1..=n_readers {
		if open[a as usize] {
			steps.push(Step::Scan { a, lo: None, hi: None, rev: false });
		}
	}
	steps.push(Step::Reopen);
	steps.push(Step::Probe);
	let mut p = base_plan("C11", case_seed, opts, keys, steps);
	p.gate_tasks = true;
	// a flush (with its value-log clean-up) committing in the middle of a compaction, and
	// a compaction in the middle of a flush: the files the other side still points into
	// must survive
	for label in ["compact.post_snapshots", "compact.pre_manifest", "compact.pre_cleanup", "flush.pre_manifest"] {
		if rng.chance(1, 3) {
			let a = 3u8;
			let mut ws = Vec::new();
			for _ in 0..rng.range(1, 3) {
				ws.push(Step::Begin { a, mode: ModeS::ReadWrite });
				for _ in 0..rng.range(1, 2) {
					let len = (*rng.pick(&sizes)).min(1500);
					ws.push(Step::Set { a, k: rng.below(nkeys as u64) as u16, v: tags.next(len), ts: None });
				}
				ws.push(Step::Commit { a, sync: false });
			}
			ws.push(if label.starts_with("compact") { Step::FlushAll } else { Step::CompactRound });
			ws.push(Step::Probe);
			p.windows.push(Window { label: label.into(), nth: rng.range(1, 3) as u32, steps: ws });
		}
	}
	p
}

fn judge_c10(plan: &Plan, tier: Tier) -> Judged {
	if !c10_in_domain(plan) || plan.twin.as_ref().map(|t| !c10_in_domain(t)).unwrap_or(false) {
		return Judged::default();
	}
	if plan.params.get("mode").copied().unwrap_or(0) == 1 {
		super::crash::judge(plan, tier)
	} else {
		judge(plan, tier)
	}
}

fn judge_c11(plan: &Plan, tier: Tier) -> Judged {
	if plan.params.get("mode").copied().unwrap_or(0) == 1 {
		super::crash::judge(plan, tier)
	} else {
		judge(plan, tier)
	}
}

pub fn c11() -> CheckDef {
	CheckDef {
		id: "C11",
		level: "fault_enumeration",
		rule: "two kinds of cases. (a) sessions with the value log on: value sizes {0, 1, threshold-1, threshold, threshold+1, 4 blocks, 700 B}, vlog files of 200-2048 bytes so one flush rotates files, overwrite/delete patterns that obsolete whole files, readers and open cursors held across flush / compaction / vlog clean-up, reopen; every value read (gets, both scans, after every physical step) is compared byte for byte with the model. (b) every third case: the C02 crash engine with the value log on and 256-1024 byte vlog files: crash images at file-operation boundaries under both crash models must recover every acknowledged value intact. evaluations = sessions + crash images. non-trivial = >=2 commits and >=2 reads (a) / a rotation or flush (b); distinct = op-log digests",
		assumptions: &["as C02 for the crash leg", "pointer reachability is judged through reads: a dangling pointer shows up as a read error or wrong bytes"],
		components: COMPONENTS,
		cases: |t| cases(t, 8000, 120000),
		gen: gen_c11,
		judge: judge_c11,
		shrink_budget: 200,
	}
}

// ---------------------------------------------------------------- C14

fn gen_c14(case_seed: u64, _case: u64, tier: Tier) -> Plan {
	let mut rng = Rng::new(case_seed);
	let mut opts = random_opts(&mut rng);
	match rng.below(4) {
		0 => with_vlog(&mut rng, &mut opts),
		1 => {
			opts.versioning = true;
			opts.versioned_index = rng.chance(1, 2);
		}
		_ => {}
	}
	opts.cache = *rng.pick(&[0u64, 1024, 16384]);
	// the conflict map's pruning runs every 1024 commits by default; with the knob it runs
	// within these short histories, so that a restore meets a map that has been pruned
	opts.oracle_gc = *rng.pick(&[None, Some(4u32), Some(16)]);
	let nkeys = rng.range(3, 10) as u16;
	let keys = key_universe(&mut rng, nkeys as usize, false);
	let nkeys = keys.len() as u16;
	let mut tags = TagGen(0);
	let budget = txn_budget(opts.memtable);
	let scale = match tier {
		Tier::Quick => 1,
		Tier::Thorough => 2,
	};
	let mut steps = Vec::new();
	let phase = |rng: &mut Rng, steps: &mut Vec<Step>, tags: &mut TagGen, n: u64| {
		for _ in 0..n {
			write_txn(rng, 0, nkeys, tags, 3, 10, budget, steps);
			if rng.chance(2, 5) {
				steps.push(physical_step(rng, false));
			}
			if rng.chance(1, 4) {
				steps.push(Step::Probe);
			}
		}
	};
	let n1 = rng.range(1, 10 * scale);
	phase(&mut rng, &mut steps, &mut tags, n1);
	steps.push(Step::Probe); // warms the caches with pre-checkpoint data
	steps.push(Step::Checkpoint);
	steps.push(Step::VerifyCheckpoint);
	let n2 = rng.range(1, 12 * scale);
	phase(&mut rng, &mut steps, &mut tags, n2);
	steps.push(Step::Probe); // warms the caches with data of the timeline to be discarded
	if rng.chance(1, 2) {
		// a flush right before the restore: the WAL clean-up it schedules on the runtime may
		// only get its turn after the restore (see "defer_spawned")
		write_txn(&mut rng, 0, nkeys, &mut tags, 3, 10, budget, &mut steps);
		steps.push(if rng.chance(1, 2) { Step::Rotate } else { Step::FlushAll });
		steps.push(Step::FlushOne);
	}
	steps.push(Step::Restore);
	steps.push(Step::Probe);
	// the guarantees hold right after the restore: a reader that began before a post-restore
	// commit does not see it
	steps.push(Step::Begin { a: 1, mode: ModeS::ReadOnly });
	write_txn(&mut rng, 0, nkeys, &mut tags, 3, 10, budget, &mut steps);
	steps.push(Step::Scan { a: 1, lo: None, hi: None, rev: false });
	for _ in 0..rng.range(1, 3) {
		steps.push(Step::Get { a: 1, k: rng.below(nkeys as u64) as u16 });
	}
	steps.push(Step::DropTxn { a: 1 });
	let n3 = rng.range(1, 10 * scale);
	phase(&mut rng, &mut steps, &mut tags, n3);
	steps.push(Step::Probe);
	steps.push(Step::FlushAll);
	steps.push(Step::CompactAll);
	steps.push(Step::Probe);
	steps.push(Step::Reopen);
	steps.push(Step::Probe);
	if rng.chance(1, 3) {
		steps.push(Step::Restore);
		steps.push(Step::Probe);
		steps.push(Step::Reopen);
		steps.push(Step::Probe);
	}
	if rng.chance(1, 3) {
		// two checkpoints, restored older first and then the newer one: the second restore
		// moves the store FORWARD in table ids / WAL numbering; commits made after it must
		// survive a reopen that has only the commit log to recover them from
		let mut s2 = Vec::new();
		let na = rng.range(1, 6);
		phase(&mut rng, &mut s2, &mut tags, na);
		s2.push(Step::Checkpoint);
		let nb = rng.range(2, 8);
		for _ in 0..nb {
			write_txn(&mut rng, 0, nkeys, &mut tags, 3, 10, budget, &mut s2);
			s2.push(if rng.chance(1, 2) { Step::Rotate } else { Step::FlushAll });
		}
		s2.push(Step::CheckpointB);
		let nc = rng.range(0, 4);
		phase(&mut rng, &mut s2, &mut tags, nc);
		s2.push(Step::Restore);
		s2.push(Step::Probe);
		let nd = rng.range(0, 3);
		phase(&mut rng, &mut s2, &mut tags, nd);
		s2.push(Step::RestoreB);
		s2.push(Step::Probe);
		for _ in 0..rng.range(1, 4) {
			write_txn(&mut rng, 0, nkeys, &mut tags, 3, 100, budget, &mut s2);
		}
		s2.push(Step::Probe);
		s2.push(Step::Reopen);
		s2.push(Step::Probe);
		steps = s2;
	}
	if opts.versioning {
		// "every subsequent read": with versioning on, the version history is a read too.
		// Keep the workload inside C10's domain (one write per key per transaction) and ask
		// for the full history after every probe.
		super::crash::one_write_per_key(&mut steps);
		let mut out = Vec::new();
		for s in steps {
			let probe = matches!(s, Step::Probe);
			out.push(s);
			if probe {
				out.push(Step::Begin { a: 2, mode: ModeS::ReadOnly });
				out.push(Step::History { a: 2, lo: 0, hi: nkeys - 1, tomb: true, ts_range: None, limit: None, rev: false });
				out.push(Step::History { a: 2, lo: 0, hi: nkeys - 1, tomb: true, ts_range: None, limit: None, rev: true });
				out.push(Step::DropTxn { a: 2 });
			}
		}
		steps = out;
	}
	let mut p = base_plan("C14", case_seed, opts, keys, steps);
	p.gate_tasks = rng.chance(1, 2);
	// create_checkpoint flushes on the caller's thread while the background tasks are alive:
	// a third of the cases let a flush / a compaction round / a probe run in the middle of a
	// flush (the checkpoint's among them) or of a compaction
	if rng.chance(1, 3) {
		for label in ["flush.pre_manifest", "compact.pre_manifest", "compact.pre_cleanup"] {
			if rng.chance(1, 2) {
				let mut ws = vec![match rng.below(3) {
					0 => Step::FlushOne,
					1 => Step::FlushAll,
					_ => Step::CompactRound,
				}];
				if rng.chance(1, 2) {
					ws.push(Step::Probe);
				}
				p.windows.push(Window { label: label.into(), nth: rng.range(1, 8) as u32, steps: ws });
			}
		}
	}
	p.params.insert("defer_spawned".into(), rng.below(2) as i64);
	p
}

pub fn c14() -> CheckDef {
	CheckDef {
		id: "C14",
		level: "exploration",
		rule: "a case = writes (+flush/compaction) -> checkpoint at a quiescent point -> the checkpoint directory is copied and opened standalone -> more writes, flushes and compactions that create new tables / vlog files and reuse ids, with probes that warm the block and vlog caches -> restore -> probes -> more commits, flush, compaction, reopen -> probes (sometimes a second restore); vlog / versioning / version index on or off, caches 0-16 KiB. Oracle: after restore every read equals the model at the checkpoint, later commits layer on it, also after reopen; the standalone open equals the checkpoint state. non-trivial = >=2 commits and >=2 reads; distinct = op-log digest",
		assumptions: &["checkpoints only at quiescent points (no commit in flight), as the property states"],
		components: COMPONENTS,
		cases: |t| cases(t, 8000, 120000),
		gen: gen_c14,
		judge,
		shrink_budget: 200,
	}
}

// ---------------------------------------------------------------- C17

fn gen_c17(case_seed: u64, _case: u64, tier: Tier) -> Plan {
	let mut rng = Rng::new(case_seed);
	let mut opts = random_opts(&mut rng);
	opts.memtable = *rng.pick(&[1536usize, 1536, 2048]);
	opts.memtable_stall = 2;
	opts.l0_max = *rng.pick(&[1usize, 2]);
	opts.l0_stall = opts.l0_max;
	opts.level_count = *rng.pick(&[2u8, 3]);
	let n_actors = rng.range(8, 12) as u8;
	let nkeys = rng.range(6, 14) as u16;
	let keys = key_universe(&mut rng, nkeys as usize, false);
	let nkeys = keys.len() as u16;
	let mut tags = TagGen(0);
	let budget = txn_budget(opts.memtable);
	let total = match tier {
		Tier::Quick => rng.range(60, 260),
		Tier::Thorough => rng.range(60, 700),
	};
	let close_at = if rng.chance(2, 3) { Some(rng.range(10, total)) } else { None };
	let mut steps = Vec::new();
	let mut open = vec![false; n_actors as usize];
	for i in 0..total {
		if Some(i) == close_at {
			steps.push(Step::Close);
		}
		let a = rng.below(n_actors as u64) as u8;
		match rng.below(20) {
			0..=11 => {
				if !open[a as usize] {
					steps.push(Step::Begin { a, mode: if rng.chance(1, 5) { ModeS::WriteOnly } else { ModeS::ReadWrite } });
					let len = value_len(&mut rng).min(budget - 60).max(40);
					steps.push(Step::Set { a, k: rng.below(nkeys as u64) as u16, v: tags.next(len), ts: None });
					open[a as usize] = true;
				} else {
					steps.push(Step::Commit { a, sync: false });
					open[a as usize] = false;
				}
			}
			12..=14 => steps.push(Step::Poll { a }),
			15 => steps.push(Step::ReleaseFlushTask),
			16 => steps.push(Step::ReleaseLevelTask),
			17 => steps.push(Step::Get { a, k: rng.below(nkeys as u64) as u16 }),
			18 => steps.push(if rng.chance(1, 2) { Step::WakeFlushTask } else { Step::WakeLevelTask }),
			_ => steps.push(Step::Probe),
		}
	}
	if rng.chance(1, 3) {
		// injected WAL / apply failures: commit-log appends, syncs and segment creation (the
		// rotation inside apply), table creation (flush). Every commit must still return and
		// close() must still return; nothing may overflow or panic.
		for _ in 0..rng.range(1, 3) {
			let at = rng.below(steps.len() as u64) as usize;
			let (kind, class) = *rng.pick(&[
				(FaultKind::Write, "wal"),
				(FaultKind::Write, "wal"),
				(FaultKind::Write, "wal"),
				(FaultKind::Create, "wal"),
				(FaultKind::Fsync, "wal"),
				(FaultKind::Create, "other"),
				(FaultKind::Write, "other"),
				(FaultKind::Write, "manifest"),
			]);
			let action = *rng.pick(&[FaultAction::Eio, FaultAction::Enospc, FaultAction::Emfile]);
			let spec = FaultSpec { at: FaultAt::Class { kind, class: class.into(), nth: rng.range(1, 4) as u32 }, action, persistent: rng.chance(1, 2), spent: false };
			steps.insert(at, Step::Faults { specs: vec![spec] });
		}
		// reads are not C17's subject; a failed append has known read-side effects (F5)
		steps.retain(|s| !matches!(s, Step::Probe | Step::Get { .. }));
	}
	let mut p = base_plan("C17", case_seed, opts, keys, steps);
	p.async_yields = rng.chance(2, 3);
	p.gate_tasks = true;
	p.params.insert("close_concurrent".into(), 1);
	// between the stages of a point read (active memtable / immutable memtables / tables) a
	// rotation, a flush or a compaction round installs its result: whatever lock the reader
	// still holds there must not be one the installer needs (a lock-order inversion between the
	// read path and flush / compaction stops every later commit and close())
	if rng.chance(1, 2) {
		let nth = rng.range(1, 12) as u32;
		p.windows.push(Window { label: "get.post_active".into(), nth, steps: vec![Step::Rotate, Step::FlushOne] });
		p.windows.push(Window { label: "get.post_immutables".into(), nth: nth + rng.range(0, 3) as u32, steps: vec![Step::FlushAll, Step::CompactRound] });
	}
	// windows in the task loops: between "no more immutables" and running=false a commit
	// rotates the memtable and tries to wake the (still "running") task
	for label in ["task.flush.pre_idle", "task.level.pre_idle"] {
		if rng.chance(2, 3) {
			let a = n_actors;
			let mut ws = Vec::new();
			for _ in 0..rng.range(1, 4) {
				ws.push(Step::Begin { a, mode: ModeS::ReadWrite });
				ws.push(Step::Set { a, k: rng.below(nkeys as u64) as u16, v: tags.next((budget - 60).min(300)), ts: None });
				ws.push(Step::Commit { a, sync: false });
				for _ in 0..7 {
					ws.push(Step::Poll { a });
				}
			}
			p.windows.push(Window { label: label.into(), nth: rng.range(1, 4) as u32, steps: ws });
		}
	}
	p
}

pub fn c17() -> CheckDef {
	CheckDef {
		id: "C17",
		level: "exploration",
		rule: "a case = 8-12 committers + readers with 1.5-2 KiB memtables, memtable stall threshold 2 and L0 stall threshold = compaction trigger (1-2), the store's REAL background tasks gated at their loop heads and released by plan steps, nested commits inside the task loops' pre-idle windows (lost wake-up window), close() issued at a random step while commits are in flight. Oracle (liveness): once the plan ends, every commit() returns (Ok or Err) and close() returns within a bounded number of scheduler turns with all tasks released; no panic. non-trivial = >=3 commit attempts with a parked phase; distinct = op-log digest ^ interleaving hash",
		assumptions: &["spin-waits that a parallel thread would resolve cannot be told from livelock in a serialised simulator: yield points are never placed inside them", "liveness is judged only after the plan's scheduled steps end (then everything gets turns)"],
		components: COMPONENTS,
		cases: |t| cases(t, 24000, 320000),
		gen: gen_c17,
		judge,
		shrink_budget: 200,
	}
}

fn cases(t: Tier, q: u64, th: u64) -> u64 {
	match t {
		Tier::Quick => q,
		Tier::Thorough => th,
	}
}

pub fn c01() -> CheckDef {
	CheckDef {
		id: "C01",
		level: "exploration",
		rule: "a case = one generated multi-transaction history: one writer, 2-5 readers (some sharing a start point), point gets, complete forward/backward scans, cursors kept open across other actors' steps, with rotation / flush / compaction rounds (1-3 levels, so bottom-level compaction is common) / vlog clean-up placed between any two reader operations, plus nested work inside the synchronous windows of Transaction::new, Compactor::write_merged_table and Snapshot::get. Oracle: every read equals model.state_at(reader horizon) ⊕ own writes for the reader's whole life. non-trivial = ≥4 reads, ≥2 commits and a flush or compaction; distinct = op-log digest ^ interleaving hash",
		assumptions: &["synchronous windows are explored by nested execution on the same stack (A1 [B..] A2 orders only)", "no pre-emption inside iterator code"],
		components: COMPONENTS,
		cases: |t| cases(t, 32000, 480000),
		gen: gen_c01,
		judge,
		shrink_budget: 250,
	}
}

pub fn c04() -> CheckDef {
	CheckDef {
		id: "C04",
		level: "exploration",
		rule: "a case = 2-8 actors running read-write and write-only transactions over 3-6 hot keys, commit phases interleaved at the six async yield points of the commit pipeline, oracle GC interval drawn from {4,16,64,default}, optional nested burst of commits inside Transaction::new's load->register window. Oracle: conflict checker over the recorded history (no two committed transactions overlap in time on a key; TransactionRetry only when a GC/restore can explain it) and model equality of all probes. non-trivial = ≥3 commit attempts with at least one parked commit phase; distinct = op-log digest ^ interleaving hash",
		assumptions: &["xxh3 fingerprint collisions are ignored", "serialised execution: atomics of the pipeline are not raced"],
		components: COMPONENTS,
		cases: |t| cases(t, 32000, 480000),
		gen: |s, _c, t| gen_concurrent(s, t, "C04"),
		judge,
		shrink_budget: 250,
	}
}

pub fn c05() -> CheckDef {
	CheckDef {
		id: "C05",
		level: "exploration",
		rule: "a case = 2-8 concurrent committers (batches of 1-8 entries, duplicate keys, arena sized so ArenaFull fires mid-batch) whose commit phases are parked/resumed at the async yield points in plan order, with probe readers begun between steps and inside the rotation window. Oracle: horizon rules (never inside a batch, never backwards, ≥ every returned commit) and probe reads == model.state_at(horizon). non-trivial = ≥3 commit attempts and a parked phase; distinct = op-log digest ^ interleaving hash",
		assumptions: &["serialised execution at yield points: individual atomics of the lock-free ring are not raced"],
		components: COMPONENTS,
		cases: |t| cases(t, 32000, 480000),
		gen: |s, _c, t| gen_concurrent(s, t, "C05"),
		judge,
		shrink_budget: 250,
	}
}

pub fn c06() -> CheckDef {
	CheckDef {
		id: "C06",
		level: "exploration",
		rule: "a case = one logical history (sets, hard/soft deletes, re-insertions; 6-70 transactions) executed under two independently drawn physical plans (placements of rotate / flush / compaction rounds / clean reopen; level count 1-4, memtable 1.5-8 KiB, block 64-1024 B, restart interval, partition size, compression per level, bloom on/off, cache 0-64 KiB, vlog) with full query transcripts (get of every key, forward and backward scans) after every third transaction and at the end; each transcript must equal the model's, hence the twins equal each other. non-trivial = ≥2 commits and ≥2 reads; distinct = op-log digests of both twins",
		assumptions: &["placement of background work is by plan (store tasks parked) in plan A; plan B lets them run freely in half the cases"],
		components: COMPONENTS,
		cases: |t| cases(t, 24000, 320000),
		gen: gen_c06,
		judge,
		shrink_budget: 250,
	}
}

pub fn c08() -> CheckDef {
	CheckDef {
		id: "C08",
		level: "exploration",
		rule: "a case = generated transaction programs (set / delete / soft delete, reads, scans, nested savepoints, partial rollbacks, commit / rollback / drop, all three modes, operations after close, empty key, empty values, adversarial byte-string keys) run inside the simulated store over a drawn physical layout with an observer transaction before/after and flush/compaction/reopen afterwards. Oracle: transaction overlay model per operation (return values, error kinds), observers see nothing pending. non-trivial = ≥2 commits and ≥2 reads; distinct = op-log digest",
		assumptions: &["the write-set rules are a pure function of the program: the simulator contributes layout, observers and reopen legs (scope note in DESIGN.md)"],
		components: COMPONENTS,
		cases: |t| cases(t, 32000, 480000),
		gen: gen_c08,
		judge,
		shrink_budget: 200,
	}
}

pub fn c09() -> CheckDef {
	CheckDef {
		id: "C09",
		level: "exploration",
		rule: "a case = a key set spread by a physical plan over write-set, active + immutable memtables and tables on 1-4 levels (several versions and tombstones per key, 64-256 B blocks and partitions), then cursor programs of 3-30 steps (seek to an in-bounds target, seek_first, seek_last, next, prev with reversals at every position) over bounds both/lower-only/upper-only/none/empty/inverted. Oracle: model cursor over the sorted live-key list in [start,end): valid(), key(), value() after every call. non-trivial = ≥5 cursor operations; distinct = op-log digest",
		assumptions: &["after the cursor has run off an end only seeks are issued (as the property states)"],
		components: COMPONENTS,
		cases: |t| cases(t, 24000, 320000),
		gen: gen_c09,
		judge,
		shrink_budget: 250,
	}
}

#[allow(dead_code)]
fn _unused(_: Kind) {}
