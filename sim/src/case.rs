//! Running one plan as one simulated execution on a fresh OS thread.

use std::path::{Path, PathBuf};
use std::rc::Rc;
use std::sync::atomic::{AtomicU64, Ordering};
use std::sync::Mutex;

use crate::disk::{self, CrashModel, Image, Op, Tear};
use crate::exec::{Outcome, Sh, Stats, Violation};
use crate::interpose as ip;
use crate::model::Model;
use crate::plan::Plan;

static CASE_NO: AtomicU64 = AtomicU64::new(0);
pub static LAST_PANIC: Mutex<String> = Mutex::new(String::new());

pub fn install_panic_hook() {
	std::panic::set_hook(Box::new(|info| {
		let msg = if let Some(s) = info.payload().downcast_ref::<&str>() {
			s.to_string()
		} else if let Some(s) = info.payload().downcast_ref::<String>() {
			s.clone()
		} else {
			"panic".to_string()
		};
		let loc = info.location().map(|l| format!("{}:{}", l.file(), l.line())).unwrap_or_default();
		if let Ok(mut g) = LAST_PANIC.lock() {
			*g = format!("{} at {}", msg, loc);
		}
	}));
}

pub fn scratch_base() -> PathBuf {
	let real_pid = unsafe { libc::syscall(libc::SYS_getpid) };
	PathBuf::from(format!("/dev/shm/skvsim/{}", real_pid))
}

pub fn fresh_dir(tag: &str) -> PathBuf {
	let n = CASE_NO.fetch_add(1, Ordering::SeqCst);
	let d = scratch_base().join(format!("{}{}", tag, n));
	let _ = std::fs::remove_dir_all(&d);
	d
}

pub fn cleanup_scratch() {
	let _ = std::fs::remove_dir_all(scratch_base());
}

#[derive(Clone, Copy, PartialEq, Eq, Debug)]
pub enum End {
	/// clean close
	Close,
	/// freeze the disk and drop everything
	Crash,
}

pub struct Session {
	pub outcome: Outcome,
	pub root: PathBuf,
}

/// Run `f` on a fresh OS thread (fresh thread-locals: ThreadRng, RandomState keys).
pub fn on_fresh_thread<T: Send + 'static>(f: impl FnOnce() -> T + Send + 'static) -> Result<T, String> {
	let h = std::thread::Builder::new().stack_size(16 << 20).spawn(f).map_err(|e| e.to_string())?;
	match h.join() {
		Ok(v) => Ok(v),
		Err(_) => Err(LAST_PANIC.lock().map(|g| g.clone()).unwrap_or_default()),
	}
}

/// Execute the plan's steps in a traced session rooted at `root` (which may already
/// contain a database image). Returns the outcome including the op log.
pub fn run_session(plan: &Plan, root: &Path, end: End, base_model: Option<Model>) -> Session {
	let plan2 = plan.clone();
	let root2 = root.to_path_buf();
	let r = on_fresh_thread(move || {
		let plan = plan2;
		let root = root2;
		std::fs::create_dir_all(&root).ok();
		ip::set_now(ip::SIM_EPOCH_NS + (plan.params.get("clock_offset").copied().unwrap_or(0) as u64));
		ip::enable_clock(true);
		ip::enable_rand(true, plan.case_seed);
		ip::begin_session(root.to_str().unwrap(), plan.faults.clone());
		let rt = tokio::runtime::Builder::new_current_thread().enable_time().start_paused(true).build().unwrap();
		let sh = Sh::new(plan, root.clone());
		if let Some(m) = base_model {
			*sh.model.borrow_mut() = m;
		}
		let sh2 = Rc::clone(&sh);
		let res = std::panic::catch_unwind(std::panic::AssertUnwindSafe(|| {
			rt.block_on(async {
				sh2.install_hooks();
				if let Err(e) = sh2.open() {
					sh2.fail("open_failed", e);
					return;
				}
				sh2.run().await;
				if !sh2.violated() {
					sh2.drain().await;
				}
				match end {
					End::Close => {
						if let Err(e) = sh2.close_store().await {
							if !sh2.violated() && sh2.plan.faults.is_empty() && !sh2.plan.steps.iter().any(|s| matches!(s, crate::plan::Step::Faults { .. })) {
								sh2.fail("close_failed", e);
							}
						}
					}
					End::Crash => sh2.crash_store().await,
				}
			});
		}));
		if res.is_err() {
			let msg = LAST_PANIC.lock().map(|g| g.clone()).unwrap_or_default();
			sh.fail("panic", msg);
			// best effort: stop writing
			ip::freeze();
		}
		surrealkv::verif::uninstall();
		drop(rt);
		let session = ip::end_session();
		ip::enable_clock(false);
		ip::enable_rand(false, 0);
		let mut out = sh.take_outcome(session);
		out.selfcheck = Ok(());
		out
	});
	ip::enable_clock(false);
	ip::enable_rand(false, 0);
	let outcome = match r {
		Ok(o) => o,
		Err(msg) => {
			let _ = ip::end_session();
			Outcome {
				failed_commits: vec![],
				violation: Some(Violation::new("panic", format!("panic outside the run loop: {}", msg))),
				stats: Stats::default(),
				ops: vec![],
				events: vec![],
				model: Model::default(),
				fired: vec![],
				selfcheck: Ok(()),
			}
		}
	};
	Session { outcome, root: root.to_path_buf() }
}

/// Materialise the crash image of `ops[..n]` (on top of `base`) into a fresh directory.
pub fn build_image(base: &Image, ops: &[Op], n: usize, model: CrashModel, tear: &Tear, tag: &str) -> std::io::Result<PathBuf> {
	let mut im = base.clone();
	for op in &ops[..n.min(ops.len())] {
		im.apply(op);
	}
	let dir = fresh_dir(tag);
	im.materialise(&dir, model, tear)?;
	Ok(dir)
}

pub fn self_check(ops: &[Op], root: &Path) -> Result<(), String> {
	disk::self_check(ops, root)
}

/// Initialise every process-global lazy (hash seeds of caches, one-time tables, ...) under a
/// fixed random stream so that a case behaves the same whether it runs first or
/// ten-thousandth in a process.
pub fn warmup() {
	use crate::model::ModeS;
	use crate::plan::*;
	for variant in 0..2 {
		let mut opts = StoreOpts::default();
		opts.memtable = 2048;
		opts.compression = vec![0, 1, 1];
		if variant == 0 {
			opts.vlog = true;
			opts.vlog_threshold = 16;
		} else {
			opts.versioning = true;
			opts.versioned_index = true;
		}
		let mut steps = Vec::new();
		for i in 0..12u32 {
			steps.push(Step::Begin { a: 0, mode: ModeS::ReadWrite });
			steps.push(Step::Set { a: 0, k: (i % 5) as u16, v: V { tag: 1000 + i, len: 200 }, ts: None });
			steps.push(Step::Commit { a: 0, sync: i % 3 == 0 });
		}
		steps.push(Step::FlushAll);
		steps.push(Step::CompactAll);
		steps.push(Step::Probe);
		steps.push(Step::Reopen);
		steps.push(Step::Probe);
		let plan = Plan {
			check: "warmup".into(),
			case_seed: 0x5eed,
			opts,
			keys: (0..5).map(|i| format!("w{}", i).into_bytes()).collect(),
			steps,
			windows: vec![],
			async_yields: false,
			gate_tasks: false,
			faults: vec![],
			crash: None,
			params: Default::default(),
			twin: None,
		};
		let root = fresh_dir("warm");
		let s = run_session(&plan, &root, End::Close, None);
		if let Some(v) = s.outcome.violation {
			if std::env::var("SKV_DEBUG").is_ok() {
				eprintln!("warmup violation: {:?}", v);
			}
		}
		let _ = std::fs::remove_dir_all(&root);
	}
}
