//! Small deterministic PRNG (splitmix64-seeded xoshiro256**). Used only by plan
//! generators — never during execution.

#[derive(Clone, Debug)]
pub struct Rng {
	s: [u64; 4],
}

pub fn splitmix(x: &mut u64) -> u64 {
	*x = x.wrapping_add(0x9E3779B97F4A7C15);
	let mut z = *x;
	z = (z ^ (z >> 30)).wrapping_mul(0xBF58476D1CE4E5B9);
	z = (z ^ (z >> 27)).wrapping_mul(0x94D049BB133111EB);
	z ^ (z >> 31)
}

/// Derive a case seed from (run seed, check id, case index).
pub fn derive(seed: u64, check: &str, case: u64) -> u64 {
	let mut x = seed ^ 0xA5A5_5A5A_DEAD_BEEF;
	for b in check.bytes() {
		x = splitmix(&mut x) ^ (b as u64);
	}
	x ^= case.wrapping_mul(0x9E3779B97F4A7C15);
	splitmix(&mut x)
}

impl Rng {
	pub fn new(seed: u64) -> Self {
		let mut x = seed;
		let s = [splitmix(&mut x), splitmix(&mut x), splitmix(&mut x), splitmix(&mut x)];
		Rng { s }
	}
	pub fn next(&mut self) -> u64 {
		let r = self.s[1].wrapping_mul(5).rotate_left(7).wrapping_mul(9);
		let t = self.s[1] << 17;
		self.s[2] ^= self.s[0];
		self.s[3] ^= self.s[1];
		self.s[1] ^= self.s[2];
		self.s[0] ^= self.s[3];
		self.s[2] ^= t;
		self.s[3] = self.s[3].rotate_left(45);
		r
	}
	/// Uniform in [0, n).
	pub fn below(&mut self, n: u64) -> u64 {
		if n == 0 {
			0
		} else {
			self.next() % n
		}
	}
	/// Uniform in [lo, hi].
	pub fn range(&mut self, lo: u64, hi: u64) -> u64 {
		lo + self.below(hi - lo + 1)
	}
	pub fn chance(&mut self, num: u64, den: u64) -> bool {
		self.below(den) < num
	}
	pub fn pick<'a, T>(&mut self, xs: &'a [T]) -> &'a T {
		&xs[self.below(xs.len() as u64) as usize]
	}
	pub fn fork(&mut self) -> Rng {
		Rng::new(self.next())
	}
}
