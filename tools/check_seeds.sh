#!/bin/bash
# tools/check_seeds.sh [Sxx...]: for every seeded change apply it to /repo, run the quick tier of each check
# named in its meta.json "caught_by", undo it, and write the result matrix to seeded/MATRIX.txt.
# A seed counts as caught by a check when that check prints a VIOLATION line with the change applied.
cd /verif || exit 2
if ! git -C /repo diff --quiet; then echo "/repo not clean"; exit 2; fi
OUT=seeded/MATRIX.txt
: > $OUT.tmp
rc=0
for d in seeded/S*/; do
  id=$(basename $d)
  if [ $# -gt 0 ]; then case " $* " in *" ${id%%-*} "*) ;; *) continue;; esac; fi
  if python3 -c "import json,sys;sys.exit(0 if json.load(open('$d/meta.json')).get('obsolete') else 1)"; then echo "$id: obsolete (the code it edits was restructured by a later fix; see meta.json)" | tee -a $OUT.tmp; continue; fi
  if python3 -c "import json,sys;sys.exit(0 if json.load(open('$d/meta.json')).get('missed') else 1)"; then echo "$id: NOT CAUGHT by any check (documented gap, see meta.json why_missed)" | tee -a $OUT.tmp; continue; fi
  checks=$(python3 -c "import json;print(' '.join(json.load(open('$d/meta.json'))['caught_by']))")
  if ! git -C /repo apply /verif/$d/patch.diff 2>/dev/null; then echo "$id: PATCH DOES NOT APPLY" | tee -a $OUT.tmp; rc=1; continue; fi
  line="$id:"
  for c in $checks; do
    if VERIF_REPLAY_DIR=/dev/shm/skvsim-seed-replay VERIF_EVIDENCE_DIR=/dev/shm/skvsim-seed-evidence timeout 1500 ./check $c quick 2>&1 | grep -q "^VIOLATION property=$c "; then line="$line $c=caught"; else line="$line $c=MISSED"; rc=1; fi
  done
  git -C /repo checkout -- .
  echo "$line" | tee -a $OUT.tmp
done
rm -f replay/*.json
[ $# -eq 0 ] && mv $OUT.tmp $OUT || { cat $OUT.tmp >/dev/null; rm -f $OUT.tmp; }
exit $rc
