#!/bin/bash
# tools/run_all.sh quick|thorough [ids...]: run the checks one after another, summary to stdout.
cd /verif || exit 2
tier=${1:-quick}; shift
ids=${*:-C01 C02 C03 C04 C05 C06 C07 C08 C09 C10 C11 C12 C14 C15 C16 C17 C18 C19}
rc=0
for c in $ids; do
  out=$(./check $c $tier 2>&1); e=$?
  echo "$out" | grep -E "^VIOLATION|^KNOWN-FINDING|^$c |harness" | cut -c1-400
  echo "== $c $tier exit=$e"
  [ $e -ne 0 ] && rc=1
done
exit $rc
