#!/bin/bash
# tools/try_seed.sh <patch.diff> <check-id>... : apply a seeded change to /repo, run the quick checks, undo.
PATCH="$1"; shift
cd /repo || exit 2
if ! git diff --quiet; then echo "repo not clean"; exit 2; fi
git apply "$PATCH" || { echo "patch does not apply"; exit 2; }
for c in "$@"; do
  echo "== $c"
  ( cd /verif && VERIF_REPLAY_DIR=/dev/shm/skvsim-seed-replay VERIF_EVIDENCE_DIR=/dev/shm/skvsim-seed-evidence timeout 1500 ./check "$c" quick 2>&1 | grep -v "^KNOWN-FINDING" | tail -4 | cut -c1-600 )
done
git -C /repo checkout -- . 
git -C /repo status --short | head -3
